package props

// Generators of the C15 monitor: the harness's own schema model, its conversion to the
// cedar-go schema AST, a by-construction generator of schema-conforming entity stores and
// requests, and a type-directed generator (plus type-breaking mutations and
// singleton-type probes) of policies in model representation.

import (
	"fmt"
	"sort"
	"strings"

	"github.com/cedar-policy/cedar-go/types"
	sast "github.com/cedar-policy/cedar-go/x/exp/schema/ast"

	"verif/internal/gen"
	"verif/internal/model"
	"verif/internal/mon"
)

// ---------------------------------------------------------------------------------------
// schema model

type tk int

const (
	tBool tk = iota
	tLong
	tString
	tEntity
	tSet
	tRecord
	tDecimal
	tIP
	tDatetime
	tDuration
)

var tkNames = []string{"Bool", "Long", "String", "entity", "Set", "record", "decimal", "ipaddr", "datetime", "duration"}

type c15Type struct {
	K     tk
	Ent   string   // tEntity
	Elem  *c15Type // tSet
	Attrs []sAttr  // tRecord, sorted by name
}

type sAttr struct {
	Name string
	T    *c15Type
	Opt  bool
}

type c15Entity struct {
	Name    string // possibly namespaced ("NS::T")
	Parents []string
	Shape   []sAttr
	Tags    *c15Type
	Enum    []string // non-nil: enumerated entity type
}

type sAction struct {
	ID         string
	Parents    []string // ids of parent actions
	Applies    bool
	Principals []string
	Resources  []string
	Ctx        []sAttr
}

type c15Schema struct {
	Ents []*c15Entity
	Acts []*sAction
}

func scalarT(k tk) *c15Type     { return &c15Type{K: k} }
func entT(name string) *c15Type { return &c15Type{K: tEntity, Ent: name} }
func setT(e *c15Type) *c15Type  { return &c15Type{K: tSet, Elem: e} }
func recT(a ...sAttr) *c15Type  { return &c15Type{K: tRecord, Attrs: sortAttrs(a)} }
func sortAttrs(a []sAttr) []sAttr {
	sort.Slice(a, func(i, j int) bool { return a[i].Name < a[j].Name })
	return a
}

// key is a structural key of the type (including optionality of record attributes).
func (t *c15Type) key() string {
	switch t.K {
	case tEntity:
		return "E<" + t.Ent + ">"
	case tSet:
		return "S<" + t.Elem.key() + ">"
	case tRecord:
		var b strings.Builder
		b.WriteString("R{")
		for _, a := range t.Attrs {
			b.WriteString(model.QuoteString(a.Name))
			if a.Opt {
				b.WriteByte('?')
			}
			b.WriteByte(':')
			b.WriteString(a.T.key())
			b.WriteByte(',')
		}
		b.WriteByte('}')
		return b.String()
	}
	return tkNames[t.K]
}

func (t *c15Type) kind() model.Kind {
	return []model.Kind{model.KBool, model.KLong, model.KString, model.KEntity, model.KSet, model.KRecord,
		model.KDecimal, model.KIP, model.KDatetime, model.KDuration}[t.K]
}

func (s *c15Schema) ent(name string) *c15Entity {
	for _, e := range s.Ents {
		if e.Name == name {
			return e
		}
	}
	return nil
}

func (s *c15Schema) act(id string) *sAction {
	for _, a := range s.Acts {
		if a.ID == id {
			return a
		}
	}
	return nil
}

// actionClosure returns the ids of all proper ancestors of the action.
func (s *c15Schema) actionClosure(id string) []string {
	seen := map[string]bool{}
	var walk func(string)
	walk = func(x string) {
		a := s.act(x)
		if a == nil {
			return
		}
		for _, p := range a.Parents {
			if !seen[p] {
				seen[p] = true
				walk(p)
			}
		}
	}
	walk(id)
	return sortedKeys(seen)
}

// ---- text form (Cedar schema syntax), used in witnesses only

func schemaName(s string) string {
	if i := strings.LastIndex(s, "::"); i >= 0 {
		return s[i+2:]
	}
	return s
}

func schemaNS(s string) string {
	if i := strings.LastIndex(s, "::"); i >= 0 {
		return s[:i]
	}
	return ""
}

func (t *c15Type) text() string {
	switch t.K {
	case tEntity:
		return t.Ent
	case tSet:
		return "Set<" + t.Elem.text() + ">"
	case tRecord:
		return attrsText(t.Attrs)
	}
	return tkNames[t.K]
}

func attrsText(as []sAttr) string {
	parts := make([]string, len(as))
	for i, a := range as {
		q := ""
		if a.Opt {
			q = "?"
		}
		parts[i] = model.QuoteString(a.Name) + q + ": " + a.T.text()
	}
	return "{" + strings.Join(parts, ", ") + "}"
}

func (e *c15Entity) text() string {
	if e.Enum != nil {
		vs := make([]string, len(e.Enum))
		for i, v := range e.Enum {
			vs[i] = model.QuoteString(v)
		}
		return "entity " + schemaName(e.Name) + " enum [" + strings.Join(vs, ", ") + "];"
	}
	s := "entity " + schemaName(e.Name)
	if len(e.Parents) > 0 {
		s += " in [" + strings.Join(e.Parents, ", ") + "]"
	}
	if len(e.Shape) > 0 {
		s += " " + attrsText(e.Shape)
	}
	if e.Tags != nil {
		s += " tags " + e.Tags.text()
	}
	return s + ";"
}

func (s *c15Schema) String() string {
	var b strings.Builder
	byNS := map[string][]*c15Entity{}
	for _, e := range s.Ents {
		byNS[schemaNS(e.Name)] = append(byNS[schemaNS(e.Name)], e)
	}
	for _, ns := range sortedKeys(byNS) {
		if ns != "" {
			b.WriteString("namespace " + ns + " { ")
		}
		for _, e := range byNS[ns] {
			b.WriteString(e.text() + " ")
		}
		if ns != "" {
			b.WriteString("} ")
		}
	}
	for _, a := range s.Acts {
		b.WriteString("action " + model.QuoteString(a.ID))
		if len(a.Parents) > 0 {
			ps := make([]string, len(a.Parents))
			for i, p := range a.Parents {
				ps[i] = model.QuoteString(p)
			}
			b.WriteString(" in [" + strings.Join(ps, ", ") + "]")
		}
		if a.Applies {
			b.WriteString(" appliesTo { principal: [" + strings.Join(a.Principals, ", ") + "], resource: [" + strings.Join(a.Resources, ", ") + "], context: " + attrsText(a.Ctx) + " }")
		}
		b.WriteString("; ")
	}
	return strings.TrimSpace(b.String())
}

// ---- conversion to the cedar-go schema AST

func (t *c15Type) toAST() sast.IsType {
	switch t.K {
	case tBool:
		return sast.Bool()
	case tLong:
		return sast.Long()
	case tString:
		return sast.String()
	case tEntity:
		return sast.EntityType(types.EntityType(t.Ent))
	case tSet:
		return sast.Set(t.Elem.toAST())
	case tRecord:
		return attrsToAST(t.Attrs)
	case tDecimal:
		return sast.Decimal()
	case tIP:
		return sast.IPAddr()
	case tDatetime:
		return sast.Datetime()
	}
	return sast.Duration()
}

func attrsToAST(as []sAttr) sast.RecordType {
	r := sast.RecordType{}
	for _, a := range as {
		r[types.String(a.Name)] = sast.Attribute{Type: a.T.toAST(), Optional: a.Opt}
	}
	return r
}

func (s *c15Schema) toAST() *sast.Schema {
	out := &sast.Schema{Entities: sast.Entities{}, Enums: sast.Enums{}, Actions: sast.Actions{}, Namespaces: sast.Namespaces{}}
	for _, e := range s.Ents {
		ents, enums := out.Entities, out.Enums
		if ns := schemaNS(e.Name); ns != "" {
			n, ok := out.Namespaces[types.Path(ns)]
			if !ok {
				n = sast.Namespace{Entities: sast.Entities{}, Enums: sast.Enums{}, Actions: sast.Actions{}}
				out.Namespaces[types.Path(ns)] = n
			}
			ents, enums = n.Entities, n.Enums
		}
		id := types.Ident(schemaName(e.Name))
		if e.Enum != nil {
			vs := make([]types.String, len(e.Enum))
			for i, v := range e.Enum {
				vs[i] = types.String(v)
			}
			enums[id] = sast.Enum{Values: vs}
			continue
		}
		ae := sast.Entity{}
		for _, p := range e.Parents {
			ae.ParentTypes = append(ae.ParentTypes, sast.EntityType(types.EntityType(p)))
		}
		if len(e.Shape) > 0 {
			ae.Shape = attrsToAST(e.Shape)
		}
		if e.Tags != nil {
			ae.Tags = e.Tags.toAST()
		}
		ents[id] = ae
	}
	for _, a := range s.Acts {
		aa := sast.Action{}
		for _, p := range a.Parents {
			aa.Parents = append(aa.Parents, sast.ParentRefFromID(types.String(p)))
		}
		if a.Applies {
			at := &sast.AppliesTo{Context: attrsToAST(a.Ctx)}
			for _, p := range a.Principals {
				at.Principals = append(at.Principals, sast.EntityType(types.EntityType(p)))
			}
			for _, p := range a.Resources {
				at.Resources = append(at.Resources, sast.EntityType(types.EntityType(p)))
			}
			aa.AppliesTo = at
		}
		out.Actions[types.String(a.ID)] = aa
	}
	return out
}

// ---------------------------------------------------------------------------------------
// schema generator

var c15AttrPool = []string{"a", "b", "n", "s", "e", "set", "rec", "opt", "a", "b", "n", "s", "if", "has space", "", "é", "a.b", "__tag:k", "k"}
var c15TagKeys = []string{"k", "t", "", "x y", "context.key"}
var c15Strings = []string{"k", "t", "", "x y", "a", "abc", "*", "10.0.0.1", "1.5"}

func c15GenType(r *mon.Rand, depth int, entNames []string) *c15Type {
	n := 12
	if depth <= 0 {
		n = 10
	}
	switch r.Intn(n) {
	case 0:
		return scalarT(tBool)
	case 1, 2:
		return scalarT(tLong)
	case 3:
		return scalarT(tString)
	case 4, 5:
		return entT(mon.Pick(r, entNames))
	case 6:
		return scalarT(tDecimal)
	case 7:
		return scalarT(tIP)
	case 8:
		return scalarT(tDatetime)
	case 9:
		return scalarT(tDuration)
	case 10:
		return setT(c15GenType(r, depth-1, entNames))
	}
	return &c15Type{K: tRecord, Attrs: c15GenAttrs(r, depth-1, entNames, 3)}
}

// c15Variant returns a record type that shares attribute names with t but differs in one
// place (optionality flipped, attribute dropped, or attribute type changed): operands for
// least-upper-bound computations.
func c15Variant(r *mon.Rand, t *c15Type, entNames []string) *c15Type {
	out := &c15Type{K: tRecord, Attrs: append([]sAttr{}, t.Attrs...)}
	if len(out.Attrs) == 0 {
		return out
	}
	i := r.Intn(len(out.Attrs))
	switch r.Intn(4) {
	case 0, 1:
		out.Attrs[i].Opt = !out.Attrs[i].Opt
	case 2:
		out.Attrs = append(out.Attrs[:i:i], out.Attrs[i+1:]...)
	default:
		out.Attrs[i].T = c15GenType(r, 0, entNames)
	}
	return out
}

func c15GenAttrs(r *mon.Rand, depth int, entNames []string, max int) []sAttr {
	n := r.Intn(max + 1)
	seen := map[string]bool{}
	var out []sAttr
	for i := 0; i < n; i++ {
		name := mon.Pick(r, c15AttrPool)
		if seen[name] {
			continue
		}
		seen[name] = true
		out = append(out, sAttr{Name: name, T: c15GenType(r, depth, entNames), Opt: r.P(0.4)})
	}
	// now and then two record-typed attributes that are variants of each other
	if depth >= 1 && len(out) >= 1 && len(out) < max+1 && r.P(0.25) {
		for _, a := range out {
			if a.T.K == tRecord && len(a.T.Attrs) > 0 {
				name := mon.Pick(r, c15AttrPool)
				if !seen[name] {
					out = append(out, sAttr{Name: name, T: c15Variant(r, a.T, entNames), Opt: r.P(0.2)})
				}
				break
			}
		}
	}
	return sortAttrs(out)
}

// c15GenSchema draws a schema: 2-4 entity types (one possibly namespaced, acyclic memberOf
// graph), optionally an enumerated type, shapes with all attribute types (optional ones,
// nesting depth <= 2), tags, 2-3 applicable actions and up to two action groups.
func c15GenSchema(r *mon.Rand) *c15Schema {
	sc := &c15Schema{}
	names := []string{"U", "G", "D", "NS::T"}[:2+r.Intn(3)]
	all := append([]string{}, names...)
	hasEnum := r.P(0.3)
	if hasEnum {
		all = append(all, "E")
	}
	for i, n := range names {
		e := &c15Entity{Name: n}
		for _, p := range names[i+1:] {
			if r.P(0.45) {
				e.Parents = append(e.Parents, p)
			}
		}
		e.Shape = c15GenAttrs(r, 2, all, 5)
		if i > 0 && r.P(0.3) {
			// a variant of an earlier entity type's shape (same names, one difference)
			prev := sc.Ents[r.Intn(i)]
			e.Shape = c15Variant(r, &c15Type{K: tRecord, Attrs: prev.Shape}, all).Attrs
		}
		if r.P(0.5) {
			e.Tags = c15GenType(r, 1, all)
		}
		sc.Ents = append(sc.Ents, e)
	}
	if hasEnum {
		sc.Ents = append(sc.Ents, &c15Entity{Name: "E", Enum: []string{"x", "y"}})
	}
	var groups []string
	if r.P(0.6) {
		g := &sAction{ID: "grp"}
		if r.P(0.4) {
			sc.Acts = append(sc.Acts, &sAction{ID: "grp2"})
			g.Parents = []string{"grp2"}
			groups = append(groups, "grp2")
		}
		sc.Acts = append(sc.Acts, g)
		groups = append(groups, "grp")
	}
	ids := []string{"view", "edit", "del"}[:2+r.Intn(2)]
	for _, id := range ids {
		a := &sAction{ID: id, Applies: true}
		for _, g := range groups {
			if r.P(0.5) {
				a.Parents = append(a.Parents, g)
			}
		}
		pick := func() []string {
			var out []string
			k := 1 + r.Intn(2)
			for _, j := range r.Perm(len(all))[:min(k, len(all))] {
				out = append(out, all[j])
			}
			sort.Strings(out)
			return out
		}
		a.Principals, a.Resources = pick(), pick()
		a.Ctx = c15GenAttrs(r, 2, all, 4)
		sc.Acts = append(sc.Acts, a)
	}
	return sc
}

// ---------------------------------------------------------------------------------------
// conforming data, by construction

type penv struct {
	P, A, R string // principal type, action id, resource type
	Ctx     []sAttr
}

func (s *c15Schema) envs() []penv {
	var out []penv
	for _, a := range s.Acts {
		if !a.Applies {
			continue
		}
		for _, p := range a.Principals {
			for _, q := range a.Resources {
				out = append(out, penv{P: p, A: a.ID, R: q, Ctx: a.Ctx})
			}
		}
	}
	return out
}

type dataGen struct {
	r  *mon.Rand
	sc *c15Schema
}

var c15IDs = []string{"a", "b", "c"}

func (d *dataGen) ids(typ string) []string {
	if e := d.sc.ent(typ); e != nil && e.Enum != nil {
		return e.Enum
	}
	return c15IDs
}

// uid picks an entity of the type from the small universe (the store decides presence).
func (d *dataGen) uid(typ string) model.Val {
	return model.Ent(typ, mon.Pick(d.r, d.ids(typ)))
}

func (d *dataGen) val(t *c15Type) model.Val {
	r := d.r
	switch t.K {
	case tBool:
		return model.Bool(r.Bool())
	case tLong:
		if r.P(0.5) {
			return model.Long(int64(r.Intn(7)) - 3)
		}
		return model.Long(gen.RandLong(r))
	case tString:
		return model.Str(mon.Pick(r, c15Strings))
	case tEntity:
		return d.uid(t.Ent)
	case tSet:
		// empty sets are frequent on purpose: two sets of different element types are equal exactly
		// when both are empty
		n := 0
		if !r.P(0.4) {
			n = 1 + r.Intn(3)
		}
		xs := make([]model.Val, n)
		for i := range xs {
			xs[i] = d.val(t.Elem)
		}
		return model.Set(xs...)
	case tRecord:
		return d.record(t.Attrs)
	}
	return gen.RandScalarOf(r, t.kind())
}

// record builds a closed record: required attributes always, optional ones half of the time.
func (d *dataGen) record(as []sAttr) model.Val {
	var ks []string
	var vs []model.Val
	for _, a := range as {
		if a.Opt && d.r.Bool() {
			continue
		}
		ks = append(ks, a.Name)
		vs = append(vs, d.val(a.T))
	}
	return model.Record(ks, vs)
}

// store builds a conforming entity store: entities of every declared type (each id present
// with probability 0.7), parents only of directly declared parent types (the type graph is
// acyclic, so is the entity graph; parents may be absent from the store), attributes by
// shape, tags only where declared, enum entities without data, and every schema action
// with exactly the transitive closure of its declared parents.
func (d *dataGen) store() map[string]*model.Entity {
	r := d.r
	st := map[string]*model.Entity{}
	for _, e := range d.sc.Ents {
		for _, id := range d.ids(e.Name) {
			if e.Enum != nil {
				if r.P(0.4) {
					ent := &model.Entity{UID: model.Ent(e.Name, id), Attrs: model.Rec(), Tags: model.Rec()}
					st[ent.UID.Key()] = ent
				}
				continue
			}
			if !r.P(0.7) {
				continue
			}
			ent := &model.Entity{UID: model.Ent(e.Name, id), Tags: model.Rec()}
			for _, pt := range e.Parents {
				for _, pid := range d.ids(pt) {
					if r.P(0.35) {
						ent.Parents = append(ent.Parents, model.Ent(pt, pid))
					}
				}
			}
			ent.Attrs = d.record(e.Shape)
			if e.Tags != nil {
				var ks []string
				var vs []model.Val
				for _, k := range c15TagKeys {
					if r.Bool() {
						ks = append(ks, k)
						vs = append(vs, d.val(e.Tags))
					}
				}
				ent.Tags = model.Record(ks, vs)
			}
			st[ent.UID.Key()] = ent
		}
	}
	for _, a := range d.sc.Acts {
		ent := &model.Entity{UID: model.Ent("Action", a.ID), Attrs: model.Rec(), Tags: model.Rec()}
		for _, p := range d.sc.actionClosure(a.ID) {
			ent.Parents = append(ent.Parents, model.Ent("Action", p))
		}
		st[ent.UID.Key()] = ent
	}
	return st
}

// request draws a conforming request of the environment; hint UIDs (entities named in the
// policy scope) are preferred half of the time so that scopes are satisfied.
func (d *dataGen) request(e penv, st map[string]*model.Entity, hintP, hintR *model.Val) *model.Env {
	env := &model.Env{Store: st}
	env.P, env.R = d.uid(e.P), d.uid(e.R)
	if hintP != nil && hintP.T == e.P && d.r.P(0.6) {
		env.P = *hintP
	}
	if hintR != nil && hintR.T == e.R && d.r.P(0.6) {
		env.R = *hintR
	}
	env.A = model.Ent("Action", e.A)
	env.Ctx = d.record(e.Ctx)
	return env
}

// ---------------------------------------------------------------------------------------
// type-directed policy generator

type pathStep struct {
	attr string
	opt  bool
}

type xpath struct {
	root  string
	steps []pathStep
	t     *c15Type
}

func (p xpath) prefixExpr(n int) *model.Expr {
	e := model.Var(p.root)
	for _, s := range p.steps[:n] {
		e = model.Access(e, s.attr)
	}
	return e
}
func (p xpath) expr() *model.Expr { return p.prefixExpr(len(p.steps)) }

func (p xpath) prefixKey(n int) string {
	var b strings.Builder
	b.WriteString(p.root)
	for _, s := range p.steps[:n] {
		fmt.Fprintf(&b, "/%d:%s", len(s.attr), s.attr)
	}
	return b.String()
}
func (p xpath) key() string { return p.prefixKey(len(p.steps)) }

func capHas(prefix, attr string) string { return prefix + "\x00has\x00" + attr }
func capTag(prefix, key string) string  { return prefix + "\x00tag\x00" + key }

type caps map[string]bool

func (c caps) with(k string) caps {
	out := make(caps, len(c)+1)
	for x := range c {
		out[x] = true
	}
	out[k] = true
	return out
}

type xg struct {
	r     *mon.Rand
	sc    *c15Schema
	env   penv
	paths []xpath
	ents  []string // all entity type names
}

func newXG(r *mon.Rand, sc *c15Schema, env penv) *xg {
	g := &xg{r: r, sc: sc, env: env}
	for _, e := range sc.Ents {
		g.ents = append(g.ents, e.Name)
	}
	var expand func(p xpath, depth int)
	expand = func(p xpath, depth int) {
		if len(g.paths) >= 60 {
			return
		}
		g.paths = append(g.paths, p)
		if depth <= 0 {
			return
		}
		var attrs []sAttr
		switch p.t.K {
		case tRecord:
			attrs = p.t.Attrs
		case tEntity:
			if e := sc.ent(p.t.Ent); e != nil {
				attrs = e.Shape
			}
		}
		for _, a := range attrs {
			steps := append(append([]pathStep{}, p.steps...), pathStep{a.Name, a.Opt})
			expand(xpath{root: p.root, steps: steps, t: a.T}, depth-1)
		}
	}
	expand(xpath{root: "principal", t: entT(env.P)}, 3)
	expand(xpath{root: "resource", t: entT(env.R)}, 3)
	expand(xpath{root: "context", t: &c15Type{K: tRecord, Attrs: env.Ctx}}, 3)
	return g
}

func (g *xg) usable(p xpath, c caps) bool {
	for i, s := range p.steps {
		if s.opt && !c[capHas(p.prefixKey(i), s.attr)] {
			return false
		}
	}
	return true
}

// guardable returns (path index, step index) pairs where step is optional, unguarded and all
// earlier steps are usable.
func (g *xg) guardable(c caps) [][2]int {
	var out [][2]int
	for pi, p := range g.paths {
		if len(p.steps) == 0 {
			continue
		}
		i := len(p.steps) - 1
		s := p.steps[i]
		if !s.opt || c[capHas(p.prefixKey(i), s.attr)] {
			continue
		}
		if g.usable(xpath{root: p.root, steps: p.steps[:i]}, c) {
			out = append(out, [2]int{pi, i})
		}
	}
	return out
}

func (g *xg) randType(depth int) *c15Type { return c15GenType(g.r, depth, g.ents) }

func (g *xg) extLit(t *c15Type) *model.Expr {
	r := g.r
	switch t.K {
	case tDecimal:
		return model.Ext("decimal", model.Lit(model.Str(model.PrintDecimal(mon.Pick(r, []int64{0, 10000, -5000, 12345, 99999})))))
	case tIP:
		return model.Ext("ip", model.Lit(model.Str(model.PrintIP(gen.IPs[r.Intn(len(gen.IPs))].IP))))
	case tDatetime:
		return model.Ext("datetime", model.Lit(model.Str(model.PrintDatetime(mon.Pick(r, []int64{0, 1, -1, 86400000, 1700000000000, -62167219200000, 253402300799999})))))
	}
	return model.Ext("duration", model.Lit(model.Str(model.PrintDuration(mon.Pick(r, []int64{0, 1, -1, 1000, 86400000, -90061001, 9223372036854775807})))))
}

func (g *xg) literal(t *c15Type, depth int) *model.Expr {
	r := g.r
	switch t.K {
	case tBool:
		return model.Lit(model.Bool(r.Bool()))
	case tLong:
		if r.P(0.7) {
			return model.Lit(model.Long(int64(r.Intn(7)) - 3))
		}
		return model.Lit(model.Long(gen.RandLong(r)))
	case tString:
		return model.Lit(model.Str(mon.Pick(r, c15Strings)))
	case tEntity:
		ids := c15IDs
		if e := g.sc.ent(t.Ent); e != nil && e.Enum != nil {
			ids = e.Enum
		}
		return model.Lit(model.Ent(t.Ent, mon.Pick(r, ids)))
	case tSet:
		n := 1 + r.Intn(2)
		if r.P(0.04) {
			n = 0
		}
		args := make([]*model.Expr, n)
		for i := range args {
			args[i] = g.gen(depth-1, t.Elem, caps{})
		}
		return model.SetE(args...)
	case tRecord:
		var ks []string
		var args []*model.Expr
		for _, a := range t.Attrs {
			if a.Opt && r.P(0.15) {
				continue
			}
			ks = append(ks, a.Name)
			args = append(args, g.gen(depth-1, a.T, caps{}))
		}
		return model.RecE(ks, args)
	}
	return g.extLit(t)
}

func (g *xg) leaf(t *c15Type, c caps) *model.Expr {
	r := g.r
	if r.P(0.65) {
		var cand []*model.Expr
		k := t.key()
		for _, p := range g.paths {
			if p.t.key() == k && g.usable(p, c) {
				cand = append(cand, p.expr())
			}
			// tag reads whose guard is in scope
			if p.t.K == tEntity && g.usable(p, c) {
				if e := g.sc.ent(p.t.Ent); e != nil && e.Tags != nil && e.Tags.key() == k {
					for _, tag := range c15TagKeys {
						if c[capTag(p.key(), tag)] {
							cand = append(cand, model.Bin(model.OGetTag, p.expr(), model.Lit(model.Str(tag))))
						}
					}
				}
			}
		}
		if len(cand) > 0 {
			return mon.Pick(r, cand)
		}
	}
	return g.literal(t, 1)
}

// gen generates an expression that is well typed (by the harness's own understanding of the
// Cedar type system) at type t in the generator's request environment under capabilities c.
func (g *xg) gen(depth int, t *c15Type, c caps) *model.Expr {
	r := g.r
	if depth <= 0 || r.P(0.2) {
		return g.leaf(t, c)
	}
	d := depth - 1
	switch r.Intn(10) {
	case 0:
		return model.If(g.genBool(d, c), g.gen(d, t, c), g.gen(d, t, c))
	case 1:
		k := mon.Pick(r, c15AttrPool)
		return model.Access(model.RecE([]string{k}, []*model.Expr{g.gen(d, t, c)}), k)
	}
	switch t.K {
	case tBool:
		return g.genBool(depth, c)
	case tLong:
		switch r.Intn(7) {
		case 0, 1:
			return model.Bin(model.OAdd, g.gen(d, t, c), g.gen(d, t, c))
		case 2:
			return model.Bin(model.OSub, g.gen(d, t, c), g.gen(d, t, c))
		case 3:
			return model.Bin(model.OMul, g.gen(d, t, c), g.gen(d, t, c))
		case 4:
			return model.Un(model.ONeg, g.gen(d, t, c))
		case 5:
			fn := mon.Pick(r, []string{"toDays", "toHours", "toMinutes", "toSeconds", "toMilliseconds"})
			return model.Ext(fn, g.gen(d, scalarT(tDuration), c))
		}
	case tDatetime:
		switch r.Intn(4) {
		case 0:
			return model.Ext("toDate", g.gen(d, t, c))
		case 1:
			return model.Ext("offset", g.gen(d, t, c), g.gen(d, scalarT(tDuration), c))
		}
	case tDuration:
		switch r.Intn(4) {
		case 0:
			return model.Ext("toTime", g.gen(d, scalarT(tDatetime), c))
		case 1:
			return model.Ext("durationSince", g.gen(d, scalarT(tDatetime), c), g.gen(d, scalarT(tDatetime), c))
		}
	case tSet:
		if r.P(0.5) {
			n := 1 + r.Intn(3)
			args := make([]*model.Expr, n)
			for i := range args {
				args[i] = g.gen(d, t.Elem, c)
			}
			return model.SetE(args...)
		}
	case tRecord:
		if r.P(0.5) {
			var ks []string
			var args []*model.Expr
			for _, a := range t.Attrs {
				ks = append(ks, a.Name)
				args = append(args, g.gen(d, a.T, c))
			}
			return model.RecE(ks, args)
		}
	}
	return g.leaf(t, c)
}

func (g *xg) entityExpr(d int, c caps) (*model.Expr, string) {
	if g.r.P(0.25) {
		return model.Var("action"), "Action"
	}
	t := mon.Pick(g.r, g.ents)
	return g.gen(d, entT(t), c), t
}

func (g *xg) actionLit() *model.Expr {
	return model.Lit(model.Ent("Action", mon.Pick(g.r, g.sc.Acts).ID))
}

func (g *xg) genBool(depth int, c caps) *model.Expr {
	r := g.r
	bt := scalarT(tBool)
	if depth <= 0 {
		return g.leaf(bt, c)
	}
	d := depth - 1
	switch r.Intn(28) {
	case 0, 1, 2:
		// has-guard: `x has a && <uses x.a>` / `if x has a then <uses> else <does not>`
		gs := g.guardable(c)
		if len(gs) == 0 {
			break
		}
		pk := mon.Pick(r, gs)
		p := g.paths[pk[0]]
		guard := model.Has(p.prefixExpr(pk[1]), p.steps[pk[1]].attr)
		c2 := c.with(capHas(p.prefixKey(pk[1]), p.steps[pk[1]].attr))
		use := g.useOf(p, d, c2)
		if r.P(0.75) {
			return model.Bin(model.OAnd, guard, use)
		}
		return model.If(guard, use, g.genBool(d, c))
	case 3, 4:
		// tag guard
		var cand []xpath
		for _, p := range g.paths {
			if p.t.K == tEntity && g.usable(p, c) {
				if e := g.sc.ent(p.t.Ent); e != nil && e.Tags != nil {
					cand = append(cand, p)
				}
			}
		}
		if len(cand) == 0 {
			break
		}
		p := mon.Pick(r, cand)
		tag := mon.Pick(r, c15TagKeys)
		guard := model.Bin(model.OHasTag, p.expr(), model.Lit(model.Str(tag)))
		c2 := c.with(capTag(p.key(), tag))
		tt := g.sc.ent(p.t.Ent).Tags
		use := g.predOn(model.Bin(model.OGetTag, p.expr(), model.Lit(model.Str(tag))), tt, d, c2)
		if r.P(0.75) {
			return model.Bin(model.OAnd, guard, use)
		}
		return model.If(guard, use, g.genBool(d, c))
	case 5, 6:
		l := g.genBool(d, c)
		return model.Bin(model.OAnd, l, g.genBool(d, c))
	case 7, 8:
		return model.Bin(model.OOr, g.genBool(d, c), g.genBool(d, c))
	case 9:
		return model.Un(model.ONot, g.genBool(d, c))
	case 10, 11:
		t := g.randType(1)
		op := model.OEq
		if r.P(0.3) {
			op = model.ONe
		}
		return model.Bin(op, g.gen(d, t, c), g.gen(d, t, c))
	case 12, 13:
		t := scalarT(mon.Pick(r, []tk{tLong, tLong, tDatetime, tDuration}))
		op := mon.Pick(r, []model.Op{model.OLt, model.OLe, model.OGt, model.OGe})
		return model.Bin(op, g.gen(d, t, c), g.gen(d, t, c))
	case 14, 15:
		l, lt := g.entityExpr(d, c)
		if lt == "Action" {
			if r.Bool() {
				return model.Bin(model.OIn, l, g.actionLit())
			}
			return model.Bin(model.OIn, l, model.SetE(g.actionLit(), g.actionLit()))
		}
		rt := mon.Pick(r, g.ents)
		if r.P(0.6) {
			return model.Bin(model.OIn, l, g.gen(d, entT(rt), c))
		}
		return model.Bin(model.OIn, l, g.gen(d, setT(entT(rt)), c))
	case 16:
		// has on any usable entity / record path, attribute declared or not
		var cand []xpath
		for _, p := range g.paths {
			if (p.t.K == tEntity || p.t.K == tRecord) && g.usable(p, c) {
				cand = append(cand, p)
			}
		}
		if len(cand) == 0 {
			break
		}
		p := mon.Pick(r, cand)
		return model.Has(p.expr(), mon.Pick(r, c15AttrPool))
	case 17:
		e, et := g.entityExpr(d, c)
		if et == "Action" {
			break
		}
		return model.Bin(model.OHasTag, e, g.gen(d, scalarT(tString), c))
	case 18:
		return model.Like(g.gen(d, scalarT(tString), c), gen.RandPattern(r))
	case 19:
		e, _ := g.entityExpr(d, c)
		tn := mon.Pick(r, append([]string{"Action"}, g.ents...))
		if r.P(0.6) {
			return model.Is(e, tn)
		}
		return model.IsIn(e, tn, g.gen(d, entT(mon.Pick(r, g.ents)), c))
	case 20:
		t := g.randType(1)
		return model.Bin(model.OContains, g.gen(d, setT(t), c), g.gen(d, t, c))
	case 21:
		t := setT(g.randType(1))
		op := mon.Pick(r, []model.Op{model.OContainsAll, model.OContainsAny})
		return model.Bin(op, g.gen(d, t, c), g.gen(d, t, c))
	case 22:
		return model.Un(model.OIsEmpty, g.gen(d, setT(g.randType(1)), c))
	case 23:
		fn := mon.Pick(r, []string{"lessThan", "lessThanOrEqual", "greaterThan", "greaterThanOrEqual"})
		return model.Ext(fn, g.gen(d, scalarT(tDecimal), c), g.gen(d, scalarT(tDecimal), c))
	case 24:
		if r.Bool() {
			return model.Ext("isInRange", g.gen(d, scalarT(tIP), c), g.gen(d, scalarT(tIP), c))
		}
		fn := mon.Pick(r, []string{"isIpv4", "isIpv6", "isLoopback", "isMulticast"})
		return model.Ext(fn, g.gen(d, scalarT(tIP), c))
	case 26, 27:
		if e := g.lubAccess(d, c); e != nil {
			return e
		}
	case 25:
		if r.Bool() {
			return model.Bin(model.OEq, model.Var("action"), g.actionLit())
		}
		return model.Bin(model.OEq, model.Var(mon.Pick(r, []string{"principal", "resource"})), model.Var(mon.Pick(r, []string{"principal", "resource"})))
	}
	return g.leaf(bt, c)
}

func (g *xg) attrsOf(t *c15Type) []sAttr {
	switch t.K {
	case tRecord:
		return t.Attrs
	case tEntity:
		if e := g.sc.ent(t.Ent); e != nil {
			return e.Shape
		}
	}
	return nil
}

// lubAccess builds `(if c then X1 else X2).a ...` or `(if c then X1 else X2) has a` where X1
// and X2 are record-typed (or entity-typed) operands of different types sharing the
// attribute name a: the validator has to type the if-expression with a least upper bound.
func (g *xg) lubAccess(d int, c caps) *model.Expr {
	r := g.r
	var cand []xpath
	for _, p := range g.paths {
		if (p.t.K == tRecord || p.t.K == tEntity) && len(g.attrsOf(p.t)) > 0 && g.usable(p, c) {
			cand = append(cand, p)
		}
	}
	if len(cand) == 0 {
		return nil
	}
	p1 := mon.Pick(r, cand)
	a1 := mon.Pick(r, g.attrsOf(p1.t))
	var x2 *model.Expr
	// second operand: another path of the same kind having the attribute, else (records) a literal variant
	var same []xpath
	for _, p := range cand {
		if p.t.K == p1.t.K && p.key() != p1.key() {
			for _, a := range g.attrsOf(p.t) {
				if a.Name == a1.Name {
					same = append(same, p)
				}
			}
		}
	}
	switch {
	case len(same) > 0 && r.P(0.8):
		x2 = mon.Pick(r, same).expr()
	case p1.t.K == tRecord:
		x2 = g.literal(c15Variant(r, p1.t, g.ents), 1)
	default:
		return nil
	}
	x1 := p1.expr()
	if r.Bool() {
		x1, x2 = x2, x1
	}
	e := model.If(g.genBool(1, c), x1, x2)
	if r.P(0.3) {
		return model.Has(e, a1.Name)
	}
	return g.predOn(model.Access(e, a1.Name), a1.T, d, c)
}

// unionExpr builds an entity-valued if-expression whose branches have 2-3 different entity
// types (a permissive-mode union), in random type order.
func (g *xg) unionExpr() *model.Expr {
	r := g.r
	perm := r.Perm(len(g.ents))
	one := func(i int) *model.Expr {
		t := g.ents[perm[i%len(perm)]]
		if r.P(0.3) {
			for _, v := range []string{"principal", "resource"} {
				if (v == "principal" && g.env.P == t) || (v == "resource" && g.env.R == t) {
					return model.Var(v)
				}
			}
		}
		return g.gen(1, entT(t), caps{})
	}
	e := model.If(g.genBool(1, caps{}), one(0), one(1))
	if len(perm) > 2 && r.P(0.35) {
		e = model.If(g.genBool(1, caps{}), e, one(2))
		if r.Bool() {
			e.Args[1], e.Args[2] = e.Args[2], e.Args[1]
		}
	}
	return e
}

// guardShape wraps the guard gb into a random boolean combination (depth <= 2) with other
// dynamic booleans and with operands the validator may type True / False: whether the
// guard's capability survives is the validator's decision, the run-time outcome judges it.
func (g *xg) guardShape(gb *model.Expr, depth int) *model.Expr {
	r := g.r
	atom := func() *model.Expr {
		switch r.Intn(6) {
		case 0, 1:
			return c15Clone(gb)
		case 2:
			return g.genBool(1, caps{})
		case 3:
			return model.Un(model.ONot, g.foldable(1))
		}
		return g.foldable(1)
	}
	var build func(d int) *model.Expr
	build = func(d int) *model.Expr {
		if d <= 0 {
			return atom()
		}
		switch r.Intn(8) {
		case 0, 1, 2:
			return model.Bin(model.OAnd, build(d-1), build(d-1))
		case 3, 4, 5:
			return model.Bin(model.OOr, build(d-1), build(d-1))
		case 6:
			return model.Un(model.ONot, build(d-1))
		}
		return model.If(build(d-1), build(d-1), build(d-1))
	}
	for try := 0; try < 8; try++ {
		e := build(depth)
		found := false
		e.Walk(func(x *model.Expr) {
			if x.Op == gb.Op && x.S == gb.S && len(x.Args) > 0 && len(x.Args) == len(gb.Args) {
				found = true
			}
		})
		if found {
			return e
		}
	}
	return model.Bin(model.OAnd, c15Clone(gb), g.foldable(1))
}

// guardAndUse picks an optional step (or a tag) and returns its guard and a boolean that
// reads the guarded thing as if the guard held.
func (g *xg) guardAndUse() (guard, use *model.Expr) {
	r := g.r
	if gs := g.guardable(caps{}); len(gs) > 0 && r.P(0.7) {
		pk := mon.Pick(r, gs)
		p := g.paths[pk[0]]
		guard = model.Has(p.prefixExpr(pk[1]), p.steps[pk[1]].attr)
		return guard, g.predOn(p.expr(), p.t, 1, caps{}.with(capHas(p.prefixKey(pk[1]), p.steps[pk[1]].attr)))
	}
	var cand []xpath
	for _, p := range g.paths {
		if p.t.K == tEntity && g.usable(p, caps{}) {
			if e := g.sc.ent(p.t.Ent); e != nil && e.Tags != nil {
				cand = append(cand, p)
			}
		}
	}
	if len(cand) == 0 {
		return nil, nil
	}
	p := mon.Pick(r, cand)
	tag := model.Lit(model.Str(mon.Pick(r, c15TagKeys)))
	guard = model.Bin(model.OHasTag, p.expr(), tag)
	return guard, g.predOn(model.Bin(model.OGetTag, p.expr(), c15Clone(tag)), g.sc.ent(p.t.Ent).Tags, 1, caps{})
}

// useOf builds a boolean that reads the (now guarded) path p or something below it.
func (g *xg) useOf(p xpath, d int, c caps) *model.Expr {
	if g.r.P(0.3) {
		return g.genBool(d, c) // the capability is in scope, leaves may pick the path
	}
	return g.predOn(p.expr(), p.t, d, c)
}

// predOn builds a boolean predicate over expression e of type t.
func (g *xg) predOn(e *model.Expr, t *c15Type, d int, c caps) *model.Expr {
	r := g.r
	switch t.K {
	case tBool:
		if r.Bool() {
			return e
		}
		return model.Bin(model.OOr, e, g.genBool(d, c))
	case tLong, tDatetime, tDuration:
		if r.Bool() {
			op := mon.Pick(r, []model.Op{model.OLt, model.OLe, model.OGt, model.OGe})
			return model.Bin(op, e, g.gen(d, t, c))
		}
	case tString:
		if r.Bool() {
			return model.Like(e, gen.RandPattern(r))
		}
	case tEntity:
		switch r.Intn(3) {
		case 0:
			return model.Is(e, mon.Pick(r, g.ents))
		case 1:
			return model.Bin(model.OIn, e, g.gen(d, entT(mon.Pick(r, g.ents)), c))
		}
	case tSet:
		switch r.Intn(3) {
		case 0:
			return model.Un(model.OIsEmpty, e)
		case 1:
			return model.Bin(model.OContains, e, g.gen(d, t.Elem, c))
		}
	case tRecord:
		if len(t.Attrs) > 0 && r.Bool() {
			return model.Has(e, mon.Pick(r, t.Attrs).Name)
		}
	case tDecimal:
		if r.Bool() {
			return model.Ext("lessThan", e, g.gen(d, t, c))
		}
	case tIP:
		if r.Bool() {
			return model.Ext("isLoopback", e)
		}
	}
	return model.Bin(model.OEq, e, g.gen(d, t, c))
}

// ---- policies

type c15policy struct {
	pol          *model.Policy
	env          penv
	hintP, hintR *model.Val
	kind         string // "typed", "mutant:<m>", "probe:<p>"
}

func (g *xg) scopeFor(typ string, pinned bool) (model.Scope, *model.Val) {
	r := g.r
	if !pinned {
		return model.Scope{Kind: model.ScAll}, nil
	}
	e := g.sc.ent(typ)
	switch r.Intn(5) {
	case 0:
		v := model.Ent(typ, mon.Pick(r, (&dataGen{r: r, sc: g.sc}).ids(typ)))
		return model.Scope{Kind: model.ScEq, Ent: v}, &v
	case 1:
		if e != nil && len(e.Parents) > 0 {
			v := model.Ent(mon.Pick(r, e.Parents), mon.Pick(r, c15IDs))
			return model.Scope{Kind: model.ScIsIn, Type: typ, Ent: v}, nil
		}
	case 2:
		if e != nil && len(e.Parents) > 0 && r.Bool() {
			return model.Scope{Kind: model.ScIn, Ent: model.Ent(mon.Pick(r, e.Parents), mon.Pick(r, c15IDs))}, nil
		}
		v := model.Ent(typ, mon.Pick(r, (&dataGen{r: r, sc: g.sc}).ids(typ)))
		return model.Scope{Kind: model.ScIn, Ent: v}, &v
	}
	return model.Scope{Kind: model.ScIs, Type: typ}, nil
}

func (g *xg) actionScope(pinned bool) model.Scope {
	r := g.r
	if !pinned {
		return model.Scope{Kind: model.ScAll}
	}
	a := model.Ent("Action", g.env.A)
	switch r.Intn(5) {
	case 0:
		if ps := g.sc.actionClosure(g.env.A); len(ps) > 0 {
			return model.Scope{Kind: model.ScIn, Ent: model.Ent("Action", mon.Pick(r, ps))}
		}
	case 1:
		return model.Scope{Kind: model.ScInSet, Ents: []model.Val{a, model.Ent("Action", mon.Pick(r, g.sc.Acts).ID)}}
	case 2:
		return model.Scope{Kind: model.ScIn, Ent: a}
	}
	return model.Scope{Kind: model.ScEq, Ent: a}
}

var c15Ill = []func() *model.Expr{
	func() *model.Expr { return model.Un(model.ONot, model.Lit(model.Long(1))) },
	func() *model.Expr {
		return model.Bin(model.OGt, model.Bin(model.OAdd, model.Lit(model.Long(1)), model.Lit(model.Str("s"))), model.Lit(model.Long(0)))
	},
	func() *model.Expr { return model.Un(model.OIsEmpty, model.Lit(model.Str("s"))) },
	func() *model.Expr { return model.Like(model.Lit(model.Long(3)), []model.PatElem{{Wild: true}}) },
}

func c15Clone(e *model.Expr) *model.Expr {
	c := *e
	c.Args = make([]*model.Expr, len(e.Args))
	for i, a := range e.Args {
		c.Args[i] = c15Clone(a)
	}
	c.Keys = append([]string(nil), e.Keys...)
	c.Pat = append([]model.PatElem(nil), e.Pat...)
	return &c
}

func c15ClonePolicy(p *model.Policy) *model.Policy {
	c := *p
	c.Conds = make([]model.Cond, len(p.Conds))
	for i, x := range p.Conds {
		c.Conds[i] = model.Cond{When: x.When, Body: c15Clone(x.Body)}
	}
	return &c
}

func subterms(e *model.Expr) []*model.Expr {
	var out []*model.Expr
	e.Walk(func(x *model.Expr) { out = append(out, x) })
	return out
}

// foldable draws a boolean the validator is likely to give a singleton type (True/False):
// the soundness of that inference is what the probes test.
func (g *xg) foldable(d int) *model.Expr {
	r := g.r
	v := func() *model.Expr { return model.Var(mon.Pick(r, []string{"principal", "resource"})) }
	anyEnt := func() *model.Expr {
		switch x := r.Intn(10); {
		case x < 4:
			return v()
		case x < 7:
			return g.unionExpr()
		}
		return g.gen(1, entT(mon.Pick(r, g.ents)), caps{})
	}
	switch r.Intn(15) {
	case 0:
		return model.Bin(model.OIn, anyEnt(), anyEnt())
	case 1:
		return model.Bin(model.OIn, anyEnt(), g.gen(1, setT(entT(mon.Pick(r, g.ents))), caps{}))
	case 2:
		return model.Is(anyEnt(), mon.Pick(r, g.ents))
	case 3:
		return model.Bin(model.OIn, model.Var("action"), g.actionLit())
	case 4:
		return model.Bin(model.OIn, model.Var("action"), model.SetE(g.actionLit(), g.actionLit()))
	case 5:
		return model.Bin(model.OEq, model.Var("action"), g.actionLit())
	case 6:
		var cand []xpath
		for _, p := range g.paths {
			if (p.t.K == tEntity || p.t.K == tRecord) && g.usable(p, caps{}) {
				cand = append(cand, p)
			}
		}
		p := mon.Pick(r, cand)
		return model.Has(p.expr(), mon.Pick(r, c15AttrPool))
	case 7:
		t := g.randType(1)
		return model.Has(g.gen(2, &c15Type{K: tRecord, Attrs: []sAttr{{Name: "a", T: t}}}, caps{}), mon.Pick(r, []string{"a", "b"}))
	case 8:
		op := model.OEq
		if r.Bool() {
			op = model.ONe
		}
		return model.Bin(op, anyEnt(), anyEnt())
	case 9:
		t := g.randType(0)
		return model.Bin(model.OEq, g.literal(t, 1), g.literal(t, 1))
	case 10:
		return model.Bin(model.OHasTag, anyEnt(), model.Lit(model.Str(mon.Pick(r, c15TagKeys))))
	case 11:
		// record built by an if over two record literals with different shapes, then `has`
		t1, t2 := g.randType(0), g.randType(0)
		k := mon.Pick(r, []string{"a", "b"})
		r1 := model.RecE([]string{"a"}, []*model.Expr{g.literal(t1, 1)})
		r2 := model.RecE([]string{k}, []*model.Expr{g.literal(t2, 1)})
		return model.Has(model.If(g.genBool(1, caps{}), r1, r2), mon.Pick(r, []string{"a", "b"}))
	case 12:
		return model.IsIn(anyEnt(), mon.Pick(r, g.ents), anyEnt())
	case 13:
		if e := g.lubAccess(1, caps{}); e != nil {
			return e
		}
	}
	return g.genBool(d, caps{})
}

func (g *xg) probe(d int) (*model.Expr, string) {
	r := g.r
	e := g.foldable(d)
	ill := mon.Pick(r, c15Ill)()
	tr := model.Lit(model.Bool(true))
	switch r.Intn(7) {
	case 0:
		return model.Bin(model.OOr, e, ill), "E||ILL"
	case 1:
		return model.Bin(model.OOr, model.Un(model.ONot, e), ill), "!E||ILL"
	case 2:
		return model.Bin(model.OAnd, e, ill), "E&&ILL"
	case 3:
		return model.Bin(model.OAnd, model.Un(model.ONot, e), ill), "!E&&ILL"
	case 4:
		return model.If(e, ill, tr), "if E then ILL"
	case 5:
		return model.If(e, tr, ill), "if E else ILL"
	}
	return model.Bin(model.OOr, model.Bin(model.OAnd, e, tr), ill), "(E&&true)||ILL"
}

var c15CmpKinds = []tk{tLong, tDatetime, tDuration}

// parameter kinds of the extension functions (receiver first for methods)
var c15ExtParams = map[string][]tk{
	"ip": {tString}, "decimal": {tString}, "datetime": {tString}, "duration": {tString},
	"lessThan": {tDecimal, tDecimal}, "lessThanOrEqual": {tDecimal, tDecimal}, "greaterThan": {tDecimal, tDecimal}, "greaterThanOrEqual": {tDecimal, tDecimal},
	"isIpv4": {tIP}, "isIpv6": {tIP}, "isLoopback": {tIP}, "isMulticast": {tIP}, "isInRange": {tIP, tIP},
	"toDate": {tDatetime}, "toTime": {tDatetime}, "offset": {tDatetime, tDuration}, "durationSince": {tDatetime, tDatetime},
	"toDays": {tDuration}, "toHours": {tDuration}, "toMinutes": {tDuration}, "toSeconds": {tDuration}, "toMilliseconds": {tDuration},
}

var c15ExtNames = func() []string {
	var out []string
	for k := range c15ExtParams {
		out = append(out, k)
	}
	sort.Strings(out)
	return out
}()

// mutate applies one type-breaking (or guard-breaking) single-step mutation in place and
// returns its name ("" if none was applicable).
func (g *xg) mutate(body *model.Expr) string {
	r := g.r
	subs := subterms(body)
	pickWhere := func(f func(*model.Expr) bool) *model.Expr {
		var c []*model.Expr
		for _, s := range subs {
			if f(s) {
				c = append(c, s)
			}
		}
		if len(c) == 0 {
			return nil
		}
		return mon.Pick(r, c)
	}
	isGuardAnd := func(e *model.Expr) bool {
		return e.Op == model.OAnd && (e.Args[0].Op == model.OHas || e.Args[0].Op == model.OHasTag)
	}
	for try := 0; try < 6; try++ {
		switch r.Intn(15) {
		case 0, 1:
			t := mon.Pick(r, subs)
			*t = *g.gen(1, g.randType(1), caps{})
			return "retype-subterm"
		case 2:
			if t := pickWhere(isGuardAnd); t != nil {
				*t = *t.Args[1]
				return "drop-guard"
			}
		case 3:
			if t := pickWhere(isGuardAnd); t != nil {
				t.Args[0], t.Args[1] = t.Args[1], t.Args[0]
				return "use-before-guard"
			}
		case 4:
			if t := pickWhere(isGuardAnd); t != nil {
				t.Op = model.OOr
				return "guard-and-to-or"
			}
		case 5:
			if t := pickWhere(isGuardAnd); t != nil {
				t.Args[0] = model.Un(model.ONot, t.Args[0])
				return "negate-guard"
			}
		case 6:
			if t := pickWhere(func(e *model.Expr) bool { return e.Op == model.OHas }); t != nil {
				t.S = mon.Pick(r, c15AttrPool)
				return "guard-other-attr"
			}
		case 7:
			if t := pickWhere(func(e *model.Expr) bool { return e.Op == model.OVar && e.S != "action" }); t != nil {
				t.S = mon.Pick(r, []string{"principal", "resource", "context"})
				return "swap-variable"
			}
		case 8:
			if t := pickWhere(func(e *model.Expr) bool { return e.Op >= model.OLt && e.Op <= model.OGe }); t != nil {
				t.Args[r.Intn(2)] = g.gen(1, scalarT(mon.Pick(r, c15CmpKinds)), caps{})
				return "cmp-operand-kind"
			}
		case 9:
			if t := pickWhere(func(e *model.Expr) bool { return e.Op == model.OAdd || e.Op == model.OSub || e.Op == model.OMul }); t != nil {
				t.Args[r.Intn(2)] = g.gen(1, scalarT(mon.Pick(r, []tk{tString, tDatetime, tDecimal, tBool})), caps{})
				return "arith-operand-kind"
			}
		case 10:
			if t := pickWhere(func(e *model.Expr) bool { return e.Op == model.OHasTag || e.Op == model.OGetTag }); t != nil {
				t.Args[1] = model.Lit(model.Str(mon.Pick(r, c15TagKeys)))
				return "tag-other-key"
			}
		case 11:
			if t := pickWhere(func(e *model.Expr) bool {
				return e.Op == model.OIf && (e.Args[0].Op == model.OHas || e.Args[0].Op == model.OHasTag)
			}); t != nil {
				t.Args[1], t.Args[2] = t.Args[2], t.Args[1]
				return "if-guard-swap-branches"
			}
		case 12:
			t := mon.Pick(r, subs)
			switch r.Intn(3) {
			case 0:
				*t = *model.Ext("nosuchfn")
				return "unknown-function(0 args)"
			case 1:
				*t = *model.Ext("nosuchfn", g.literal(g.randType(0), 1))
				return "unknown-function(1 arg)"
			}
			fn := mon.Pick(r, c15ExtNames)
			sig := c15ExtParams[fn]
			n := len(sig)
			k := n + 1
			if r.Bool() {
				k = n - 1
			}
			args := make([]*model.Expr, k)
			for i := range args {
				// well-typed arguments: only the count is wrong
				args[i] = g.gen(1, scalarT(sig[min(i, n-1)]), caps{})
			}
			*t = *model.Ext(fn, args...)
			return "wrong-arity"
		case 13:
			if t := pickWhere(func(e *model.Expr) bool { return e.Op == model.OAccess }); t != nil {
				t.S = mon.Pick(r, c15AttrPool)
				return "access-other-attr"
			}
		case 14:
			if t := pickWhere(func(e *model.Expr) bool { return e.Op == model.OAccess || e.Op == model.OHas }); t != nil {
				if r.Bool() {
					t.Args[0] = g.gen(1, g.randType(1), caps{})
				} else {
					t.Args[0] = model.If(g.genBool(1, caps{}), t.Args[0], g.gen(1, g.randType(1), caps{}))
				}
				return "access-object-kind"
			}
		}
	}
	return ""
}

// policy draws one policy for the generator's environment.
func (g *xg) policy(depth int) *c15policy {
	r := g.r
	out := &c15policy{env: g.env, kind: "typed"}
	pol := &model.Policy{Permit: r.Bool()}
	pinned := r.P(0.75)
	pol.P, out.hintP = g.scopeFor(g.env.P, pinned || r.Bool())
	pol.A = g.actionScope(pinned || r.Bool())
	pol.R, out.hintR = g.scopeFor(g.env.R, pinned || r.Bool())
	n := 1
	if r.P(0.25) {
		n = 2
	}
	for i := 0; i < n; i++ {
		pol.Conds = append(pol.Conds, model.Cond{When: r.P(0.75), Body: g.genBool(1+r.Intn(depth), caps{})})
	}
	switch x := r.Intn(100); {
	case x < 35:
	case x < 65:
		c := &pol.Conds[r.Intn(len(pol.Conds))]
		if m := g.mutate(c.Body); m != "" {
			out.kind = "mutant:" + m
		}
	case x < 85:
		c := &pol.Conds[r.Intn(len(pol.Conds))]
		var k string
		c.Body, k = g.probe(1 + r.Intn(2))
		out.kind = "probe:" + k
	case x < 93:
		// a guard buried in a boolean combination with static operands, then the guarded use
		if guard, use := g.guardAndUse(); guard != nil {
			x := g.guardShape(guard, 1+r.Intn(2))
			c := &pol.Conds[r.Intn(len(pol.Conds))]
			switch r.Intn(4) {
			case 0:
				c.Body = model.If(x, use, g.genBool(1, caps{}))
			case 1:
				c.Body = model.Bin(model.OAnd, model.Bin(model.OAnd, x, g.genBool(1, caps{})), use)
			default:
				c.Body = model.Bin(model.OAnd, x, use)
			}
			out.kind = "guardshape:" + x.Op.String()
		}
	default:
		// guard and guarded use in different when/unless clauses, in either order
		if guard, use := g.guardAndUse(); guard != nil {
			gc := guard
			switch r.Intn(5) {
			case 0:
				gc = model.Un(model.ONot, guard)
			case 1:
				gc = model.Bin(model.OAnd, guard, g.genBool(1, caps{}))
			case 2:
				gc = model.Bin(model.OOr, guard, g.genBool(1, caps{}))
			}
			cl := []model.Cond{{When: r.Bool(), Body: gc}, {When: r.Bool(), Body: use}}
			if r.P(0.3) {
				cl[0], cl[1] = cl[1], cl[0]
			}
			if r.P(0.4) {
				extra := model.Cond{When: r.Bool(), Body: g.genBool(1, caps{})}
				k := r.Intn(3)
				cl = append(cl[:k:k], append([]model.Cond{extra}, cl[k:]...)...)
			}
			pol.Conds = cl
			out.kind = "clauses:" + fmt.Sprintf("%d", len(cl))
		}
	}
	out.pol = pol
	return out
}
