package props

import (
	"context"
	"fmt"
	"sort"
	"strings"

	cedar "github.com/cedar-policy/cedar-go"
	"github.com/cedar-policy/cedar-go/types"
	"github.com/cedar-policy/cedar-go/x/exp/ast"
	"github.com/cedar-policy/cedar-go/x/exp/batch"

	"verif/internal/bridge"
)

// batchScopes drives every scope form through the partial-evaluation path of the batch
// authorizer (one request part is a variable ranging over all nodes, the others are
// concrete), and compares the reason set of every result with reachability.
func (r *c03runner) batchScopes() {
	n := r.g.n
	ps := cedar.NewPolicySet()
	type pol struct {
		id   string
		want func(p, a, rs int) bool
	}
	var pols []pol
	add := func(id string, p *ast.Policy, want func(p, a, rs int) bool) {
		ps.Add(cedar.PolicyID(id), NewPolicy(p))
		pols = append(pols, pol{id, want})
	}
	reach := make([]uint16, n)
	for i := range reach {
		reach[i] = r.g.reach(i)
	}
	all := ast.ScopeTypeAll{}
	for t := 0; t < n; t++ {
		t := t
		add(fmt.Sprintf("principal in %d", t), &ast.Policy{Effect: ast.EffectPermit, Principal: ast.ScopeTypeIn{Entity: c03uids[t]}, Action: all, Resource: all},
			func(p, a, rs int) bool { return reach[p]&(1<<t) != 0 })
		add(fmt.Sprintf("action in %d", t), &ast.Policy{Effect: ast.EffectPermit, Principal: all, Action: ast.ScopeTypeIn{Entity: c03uids[t]}, Resource: all},
			func(p, a, rs int) bool { return reach[a]&(1<<t) != 0 })
		add(fmt.Sprintf("resource in %d", t), &ast.Policy{Effect: ast.EffectPermit, Principal: all, Action: all, Resource: ast.ScopeTypeIn{Entity: c03uids[t]}},
			func(p, a, rs int) bool { return reach[rs]&(1<<t) != 0 })
		for _, ty := range []types.EntityType{"U", "G", "T"} {
			ty := ty
			add(fmt.Sprintf("principal is %s in %d", ty, t), &ast.Policy{Effect: ast.EffectPermit, Principal: ast.ScopeTypeIsIn{Type: ty, Entity: c03uids[t]}, Action: all, Resource: all},
				func(p, a, rs int) bool { return c03uids[p].Type == ty && reach[p]&(1<<t) != 0 })
			add(fmt.Sprintf("resource is %s in %d", ty, t), &ast.Policy{Effect: ast.EffectPermit, Principal: all, Action: all, Resource: ast.ScopeTypeIsIn{Type: ty, Entity: c03uids[t]}},
				func(p, a, rs int) bool { return c03uids[rs].Type == ty && reach[rs]&(1<<t) != 0 })
		}
	}
	for sub := uint16(0); sub < 1<<n; sub++ {
		sub := sub
		var es []types.EntityUID
		for j := 0; j < n; j++ {
			if sub&(1<<j) != 0 {
				es = append(es, c03uids[j])
			}
		}
		add(fmt.Sprintf("action in set %b", sub), &ast.Policy{Effect: ast.EffectPermit, Principal: all, Action: ast.ScopeTypeInSet{Entities: es}, Resource: all},
			func(p, a, rs int) bool { return reach[a]&sub != 0 })
	}
	vals := make([]types.Value, n)
	idx := map[types.EntityUID]int{}
	for i := 0; i < n; i++ {
		vals[i] = c03uids[i]
		idx[c03uids[i]] = i
	}
	for s := 0; s < n; s++ {
		for part := 0; part < 3; part++ {
			req := batch.Request{Principal: c03uids[s], Action: c03uids[s], Resource: c03uids[s], Context: types.Record{}, Variables: batch.Variables{"x": vals}}
			switch part {
			case 0:
				req.Principal = batch.Variable("x")
			case 1:
				req.Action = batch.Variable("x")
			default:
				req.Resource = batch.Variable("x")
			}
			r.getter.Calls = 0
			r.getter.Budget = r.budget() * len(pols) * (n + 1)
			seen := 0
			var bad string
			func() {
				defer func() {
					if x := recover(); x != nil {
						if be, ok := x.(bridge.BudgetExceeded); ok {
							bad = fmt.Sprintf("nonterminating: more than %d EntityGetter.Get calls", be.Calls-1)
							return
						}
						bad = fmt.Sprintf("panic: %v", x)
					}
				}()
				err := batch.Authorize(context.Background(), ps, r.getter, req, func(res batch.Result) error {
					seen++
					p, a, rs := idx[res.Request.Principal], idx[res.Request.Action], idx[res.Request.Resource]
					var want []string
					for _, pl := range pols {
						if pl.want(p, a, rs) {
							want = append(want, pl.id)
						}
					}
					sort.Strings(want)
					got, errs := bridge.Diag(res.Diagnostic)
					r.w.Evals(1)
					if len(errs) > 0 || !eqStrs(got, want) {
						wit := r.g.describe()
						wit["request"] = fmt.Sprintf("principal=node %d action=node %d resource=node %d (variable part %d)", p, a, rs, part)
						wit["got_reasons"], wit["want_reasons"], wit["errors"] = got, want, errs
						diff := symDiff(got, want)
						form := "?"
						if len(diff) > 0 {
							form = strings.TrimRight(diff[0], " 0123456789")
						}
						r.w.Violation("batch scope `"+form+"` disagrees with reachability", fmt.Sprintf("batch.Authorize (variable part %d) reports satisfied scope policies %v, reachability says %v", part, got, want), wit)
					}
					return nil
				})
				if err != nil {
					bad = "error: " + err.Error()
				}
			}()
			if bad != "" || seen != n {
				wit := r.g.describe()
				wit["bad"], wit["callbacks"] = bad, seen
				r.w.Violation("batch scope run failed", fmt.Sprintf("batch.Authorize over scope policies: %s, %d of %d callbacks", bad, seen, n), wit)
			}
		}
	}
}

func symDiff(a, b []string) []string {
	m := map[string]int{}
	for _, x := range a {
		m[x]++
	}
	for _, x := range b {
		m[x]--
	}
	var out []string
	for k, v := range m {
		if v != 0 {
			out = append(out, k)
		}
	}
	sort.Strings(out)
	return out
}
