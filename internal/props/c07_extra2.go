package props

import (
	"fmt"
	"strings"
)

// Further reject-list families, generated:
//   - a record literal of 2..20 entries in which entry j repeats the key of entry i, for every
//     pair i < j (duplicate detection that changes strategy with the number of entries);
//     likewise 2..12 annotations with annotation j repeating the key of annotation i;
//   - an `if` expression standing unparenthesised as the right operand of every binary
//     operator or as the operand of a unary operator (the grammar only allows `if` where an
//     Expr is allowed: top level, parentheses, set / record / argument positions, then/else
//     branches), and a relation continued after an else branch that already ended in one.
func init() {
	for n := 2; n <= 20; n++ {
		for i := 0; i < n; i++ {
			for j := i + 1; j < n; j++ {
				// keep the list in the thousands: all pairs up to 12 entries, beyond that pairs that
				// involve one of the first two, the last two or entries 7..9
				if n > 12 && !(i < 2 || j >= n-2 || (i >= 7 && i <= 9) || (j >= 7 && j <= 9)) {
					continue
				}
				var es []string
				for k := 0; k < n; k++ {
					key := fmt.Sprintf("k%d", k)
					if k == j {
						key = fmt.Sprintf("k%d", i)
					}
					if (k+n)%3 == 0 {
						key = `"` + key + `"`
					}
					es = append(es, fmt.Sprintf("%s: %d", key, k))
				}
				c07reject = append(c07reject, struct{ cat, expr string }{fmt.Sprintf("duplicate-record-key among %d entries", n), "{" + strings.Join(es, ", ") + "}"})
			}
		}
	}
	for n := 2; n <= 12; n++ {
		for i := 0; i < n; i++ {
			for j := i + 1; j < n; j++ {
				var as []string
				for k := 0; k < n; k++ {
					key := fmt.Sprintf("a%d", k)
					if k == j {
						key = fmt.Sprintf("a%d", i)
					}
					as = append(as, fmt.Sprintf("@%s(\"%d\")", key, k))
				}
				c07rejectPolicies = append(c07rejectPolicies, struct{ cat, text string }{fmt.Sprintf("duplicate-annotation among %d", n), strings.Join(as, " ") + " permit(principal, action, resource);"})
			}
		}
	}
	ifs := []string{"if true then 1 else 2", "if context.b then principal else resource", "if 1 < 2 then true else false"}
	for _, op := range []string{"&&", "||", "==", "!=", "<", "<=", ">", ">=", "+", "-", "*", "in"} {
		for _, f := range ifs {
			c07reject = append(c07reject, struct{ cat, expr string }{"unparenthesised-if-as-operand", "context.x " + op + " " + f})
			c07reject = append(c07reject, struct{ cat, expr string }{"unparenthesised-if-as-operand", "1 " + op + " 2 " + op + " " + f})
		}
	}
	for _, f := range ifs {
		c07reject = append(c07reject,
			struct{ cat, expr string }{"unparenthesised-if-as-operand", "!" + f},
			struct{ cat, expr string }{"unparenthesised-if-as-operand", "-" + f},
			struct{ cat, expr string }{"unparenthesised-if-as-operand", "!!" + f},
			struct{ cat, expr string }{"unparenthesised-if-as-operand", "principal has a && " + f},
			struct{ cat, expr string }{"unparenthesised-if-as-operand", "context.s.contains(1) || " + f})
	}
	c07reject = append(c07reject,
		struct{ cat, expr string }{"chained-relation", "if true then 1 else 2 == 3 == false"},
		struct{ cat, expr string }{"chained-relation", "if true then 1 else 2 < 3 < 4"},
		struct{ cat, expr string }{"chained-relation", "if true then 1 else principal in resource in action"},
		struct{ cat, expr string }{"chained-relation", "if 1 < 2 < 3 then 1 else 2"},
		struct{ cat, expr string }{"chained-relation", "if true then 1 == 2 == 3 else 2"})
}
