package props

// C17 - Schema codecs round-trip and preserve the resolved schema.
//
// Events observed: schema.Schema.{MarshalCedar,UnmarshalCedar,MarshalJSON,UnmarshalJSON,Resolve}
// of the real cedar-go code on generated schema ASTs. Oracle: the resolved schema of the AST as
// built (Resolve on the in-memory AST, no codec involved) compared semantically with the resolved
// schema after each codec path; byte equality of the second rendering.

import (
	"bytes"
	"encoding/json"
	"fmt"
	"regexp"
	"runtime/debug"
	"sort"
	"strings"

	"github.com/cedar-policy/cedar-go/types"
	"github.com/cedar-policy/cedar-go/x/exp/schema"
	"github.com/cedar-policy/cedar-go/x/exp/schema/ast"
	"github.com/cedar-policy/cedar-go/x/exp/schema/resolved"

	"verif/internal/mon"
)

func init() { Registry["C17"] = C17 }

// ---------------------------------------------------------------------------------------
// semantic canonical form of a resolved schema

type c17named map[string]any // map keyed by user-chosen names (starred in difference classes)
type c17ty string            // leaf type
type c17absent struct{}

func c17CanonAnn(a resolved.Annotations) c17named {
	m := c17named{}
	for k, v := range a {
		m[string(k)] = string(v)
	}
	return m
}

func c17CanonType(t resolved.IsType) any {
	switch t := t.(type) {
	case nil:
		return nil
	case resolved.StringType:
		return c17ty("String")
	case resolved.LongType:
		return c17ty("Long")
	case resolved.BoolType:
		return c17ty("Bool")
	case resolved.ExtensionType:
		return c17ty("ext:" + string(t))
	case resolved.EntityType:
		return c17ty("entity:" + string(t))
	case resolved.SetType:
		return map[string]any{"set": c17CanonType(t.Element)}
	case resolved.RecordType:
		return map[string]any{"record": c17CanonRec(t)}
	}
	return c17ty(fmt.Sprintf("unknown:%T", t))
}

func c17CanonRec(r resolved.RecordType) c17named {
	m := c17named{}
	for k, a := range r {
		m[string(k)] = map[string]any{"type": c17CanonType(a.Type), "optional": a.Optional, "annotations": c17CanonAnn(a.Annotations)}
	}
	return m
}

func c17Set[T ~string](xs []T) []string {
	seen := map[string]bool{}
	out := []string{}
	for _, x := range xs {
		if !seen[string(x)] {
			seen[string(x)] = true
			out = append(out, string(x))
		}
	}
	sort.Strings(out)
	return out
}

// c17Canon: nil and empty maps/lists are equal, parent / principal / resource / enum-value lists
// are sets, annotations are compared by key. An action whose appliesTo is absent or has an empty
// principal or resource list is "never applicable" (no request environment exists for it).
func c17Canon(rs *resolved.Schema) map[string]any {
	nss, ents, enums, acts := c17named{}, c17named{}, c17named{}, c17named{}
	for k, n := range rs.Namespaces {
		nss[string(k)] = map[string]any{"name": string(n.Name), "annotations": c17CanonAnn(n.Annotations)}
	}
	for k, e := range rs.Entities {
		ents[string(k)] = map[string]any{"name": string(e.Name), "annotations": c17CanonAnn(e.Annotations), "parents": c17Set(e.ParentTypes),
			"shape": c17CanonRec(e.Shape), "tags": c17CanonType(e.Tags)}
	}
	for k, e := range rs.Enums {
		var vals []string
		for _, v := range e.Values {
			vals = append(vals, v.String())
		}
		enums[string(k)] = map[string]any{"name": string(e.Name), "annotations": c17CanonAnn(e.Annotations), "values": c17Set(vals)}
	}
	for k, a := range rs.Actions {
		var ps []string
		for p := range a.Entity.Parents.All() {
			ps = append(ps, p.String())
		}
		m := map[string]any{"uid": a.Entity.UID.String(), "annotations": c17CanonAnn(a.Annotations), "parents": c17Set(ps),
			"entityAttrs": a.Entity.Attributes.Len() + a.Entity.Tags.Len()}
		if a.AppliesTo == nil || len(a.AppliesTo.Principals) == 0 || len(a.AppliesTo.Resources) == 0 {
			m["appliesTo"] = "never"
		} else {
			m["appliesTo"] = map[string]any{"principals": c17Set(a.AppliesTo.Principals), "resources": c17Set(a.AppliesTo.Resources), "context": c17CanonRec(a.AppliesTo.Context)}
		}
		acts[k.String()] = m
	}
	return map[string]any{"namespaces": nss, "entities": ents, "enums": enums, "actions": acts}
}

type c17Difference struct {
	Path  []string // concrete path
	Star  []string // path with user-chosen names replaced by *
	Got   any
	Want  any
	Class string
}

func c17KindOf(v any) string {
	switch v := v.(type) {
	case nil:
		return "none"
	case c17absent:
		return "absent"
	case bool:
		return fmt.Sprint(v)
	case []string:
		return "set"
	case c17ty:
		if strings.HasPrefix(string(v), "entity:") {
			return "entity"
		}
		return "builtin"
	case string:
		if v == "never" {
			return "never"
		}
		return "string"
	case int:
		return "int"
	case c17named:
		return "map"
	case map[string]any:
		for _, k := range []string{"set", "record", "principals"} {
			if _, ok := v[k]; ok {
				if k == "principals" {
					return "appliesTo"
				}
				return k
			}
		}
		return "object"
	}
	return fmt.Sprintf("%T", v)
}

func c17DiffTrees(got, want any, path, star []string) *c17Difference {
	mk := func(g, w any, p, s []string) *c17Difference {
		return &c17Difference{Path: append([]string{}, p...), Star: append([]string{}, s...), Got: g, Want: w}
	}
	mapDiff := func(g, w map[string]any, named bool) *c17Difference {
		keys := map[string]bool{}
		for k := range g {
			keys[k] = true
		}
		for k := range w {
			keys[k] = true
		}
		for _, k := range sortedKeys(keys) {
			sk := k
			if named {
				sk = "*"
			}
			gv, gok := g[k]
			wv, wok := w[k]
			p, s := append(path, k), append(star, sk)
			switch {
			case !gok:
				return mk(c17absent{}, wv, p, s)
			case !wok:
				return mk(gv, c17absent{}, p, s)
			}
			if d := c17DiffTrees(gv, wv, p, s); d != nil {
				return d
			}
		}
		return nil
	}
	switch w := want.(type) {
	case c17named:
		if g, ok := got.(c17named); ok {
			return mapDiff(g, w, true)
		}
	case map[string]any:
		if g, ok := got.(map[string]any); ok {
			if c17KindOf(g) != c17KindOf(w) {
				return mk(got, want, path, star)
			}
			return mapDiff(g, w, false)
		}
	case []string:
		if g, ok := got.([]string); ok && strings.Join(g, "\x00") == strings.Join(w, "\x00") && len(g) == len(w) {
			return nil
		}
	default:
		if got == want {
			return nil
		}
	}
	return mk(got, want, path, star)
}

func c17ClassOf(d *c17Difference) string {
	has := func(x string) bool {
		for _, s := range d.Star {
			if s == x {
				return true
			}
		}
		return false
	}
	inRecord := has("shape") || has("context") || has("record")
	last := d.Star[len(d.Star)-1]
	prev := ""
	if len(d.Star) > 1 {
		prev = d.Star[len(d.Star)-2]
	}
	isAnn := last == "annotations" || (last == "*" && prev == "annotations")
	loc := ""
	switch {
	case last == "optional":
		loc = "attr.optional"
	case isAnn && inRecord:
		loc = "attr.annotations"
	case isAnn:
		loc = d.Star[0] + ".annotations"
	case last == "*" && (prev == "record" || prev == "shape" || prev == "context"):
		loc = "record.attrs"
	case has("type") || has("set") || has("tags"):
		loc = "type"
	case inRecord:
		loc = "record.attrs"
	default:
		loc = strings.Join(d.Star, ".")
	}
	return fmt.Sprintf("%s got=%s want=%s", loc, c17KindOf(d.Got), c17KindOf(d.Want))
}

// ---------------------------------------------------------------------------------------
// running the codec paths

type c17Fail struct {
	Path   string // "text", "json", "text->json", "json->text", "alt-text"
	Stage  string
	Class  string
	Msg    string // normalised error text: drift control while shrinking, not part of the signature
	Detail map[string]any
}

func (f *c17Fail) key() string { return f.Path + "|" + f.Stage + "|" + f.Class + "|" + f.Msg }

var c17rePos = regexp.MustCompile(`<input>:\d+:\d+: `)
var c17reQuoted = regexp.MustCompile(`"(?:[^"\\]|\\.)*"`)

func c17NormMsg(s string) string {
	s = c17rePos.ReplaceAllString(s, "")
	s = c17reQuoted.ReplaceAllString(s, "\"…\"")
	if len(s) > 120 {
		s = s[:120]
	}
	return s
}

// c17Call runs f and converts a panic into (site, message).
func c17Call(f func() error) (err error, panicSite, panicMsg string) {
	defer func() {
		if r := recover(); r != nil {
			panicSite, panicMsg = mon.PanicSite(debug.Stack()), fmt.Sprint(r)
		}
	}()
	return f(), "", ""
}

type c17leg struct {
	name      string
	marshal   func(s *schema.Schema) ([]byte, error)
	unmarshal func(s *schema.Schema, b []byte) error
}

var c17Text = c17leg{"text", (*schema.Schema).MarshalCedar, (*schema.Schema).UnmarshalCedar}
var c17JSON = c17leg{"json", (*schema.Schema).MarshalJSON, (*schema.Schema).UnmarshalJSON}

func c17Resolve(s *schema.Schema) (rs *resolved.Schema, err error, site, msg string) {
	err, site, msg = c17Call(func() error {
		var e error
		rs, e = s.Resolve()
		return e
	})
	return
}

// c17RunPath renders, re-parses, resolves and re-renders along the given legs; want is the
// canonical resolved schema of the original AST.
func c17RunPath(a *ast.Schema, want map[string]any, path string, legs ...c17leg) *c17Fail {
	cur := schema.NewSchemaFromAST(a)
	detail := map[string]any{}
	fail := func(stage, class, msg string) *c17Fail {
		return &c17Fail{Path: path, Stage: stage, Class: class, Msg: c17NormMsg(msg), Detail: detail}
	}
	for _, leg := range legs {
		var b1, b2 []byte
		err, site, pm := c17Call(func() (e error) { b1, e = leg.marshal(cur); return })
		if site != "" {
			detail["panic"] = pm
			return fail("panic", "marshal-"+leg.name+"@"+site, "")
		}
		if err != nil {
			detail["error"] = err.Error()
			return fail("marshal-error", leg.name, err.Error())
		}
		detail[leg.name+"_rendering"] = string(b1)
		var next schema.Schema
		err, site, pm = c17Call(func() error { return leg.unmarshal(&next, b1) })
		if site != "" {
			detail["panic"] = pm
			return fail("panic", "unmarshal-"+leg.name+"@"+site, "")
		}
		if err != nil {
			detail["error"] = err.Error()
			return fail("reparse-error", leg.name, err.Error())
		}
		rs, err, site, pm := c17Resolve(&next)
		if site != "" {
			detail["panic"] = pm
			return fail("panic", "resolve-after-"+leg.name+"@"+site, "")
		}
		if err != nil {
			detail["error"] = err.Error()
			return fail("resolve-error-after-roundtrip", leg.name, err.Error())
		}
		got := c17Canon(rs)
		if d := c17DiffTrees(got, want, nil, nil); d != nil {
			d.Class = c17ClassOf(d)
			detail["difference_at"] = strings.Join(d.Path, " / ")
			detail["got"] = d.Got
			detail["want"] = d.Want
			return fail("resolved-differs", d.Class, "")
		}
		// the same document parsed into a Schema value that already held, and had resolved,
		// another schema: the receiver's earlier life must not show in the result
		used := c17UsedSchema()
		if uerr, usite, _ := c17Call(func() error { return leg.unmarshal(used, b1) }); uerr == nil && usite == "" {
			urs, uerr, usite, _ := c17Resolve(used)
			if uerr != nil || usite != "" {
				detail["error"] = fmt.Sprint(uerr, usite)
				return fail("resolve-error-after-roundtrip", leg.name+" into a used Schema value", fmt.Sprint(uerr))
			}
			if d := c17DiffTrees(c17Canon(urs), want, nil, nil); d != nil {
				d.Class = c17ClassOf(d)
				detail["difference_at"] = strings.Join(d.Path, " / ")
				detail["got"] = d.Got
				detail["want"] = d.Want
				detail["receiver"] = "a Schema value that had already parsed and resolved another schema"
				return fail("resolved-differs", "parsed into a used Schema value: "+d.Class, "")
			}
		} else {
			detail["error"] = fmt.Sprint(uerr, usite)
			return fail("reparse-error", leg.name+" into a used Schema value", fmt.Sprint(uerr))
		}
		err, site, pm = c17Call(func() (e error) { b2, e = leg.marshal(&next); return })
		if site != "" {
			detail["panic"] = pm
			return fail("panic", "remarshal-"+leg.name+"@"+site, "")
		}
		if err != nil {
			detail["error"] = err.Error()
			return fail("marshal-error", "second-"+leg.name, err.Error())
		}
		if !bytes.Equal(b1, b2) {
			detail["second_"+leg.name+"_rendering"] = string(b2)
			return fail("second-rendering-differs", leg.name, "")
		}
		cur = &next
	}
	return nil
}

// c17RunAlt parses the independent printer's text and compares the resolved schema.
func c17RunAlt(a *ast.Schema, want map[string]any, r *mon.Rand) *c17Fail {
	txt := c17Print(a, r)
	detail := map[string]any{"independent_text": txt}
	fail := func(stage, class, msg string) *c17Fail {
		return &c17Fail{Path: "alt-text", Stage: stage, Class: class, Msg: c17NormMsg(msg), Detail: detail}
	}
	var next schema.Schema
	err, site, pm := c17Call(func() error { return next.UnmarshalCedar([]byte(txt)) })
	if site != "" {
		detail["panic"] = pm
		return fail("panic", "unmarshal-text@"+site, "")
	}
	if err != nil {
		detail["error"] = err.Error()
		return fail("parse-error", "text", err.Error())
	}
	rs, err, site, pm := c17Resolve(&next)
	if site != "" {
		detail["panic"] = pm
		return fail("panic", "resolve@"+site, "")
	}
	if err != nil {
		detail["error"] = err.Error()
		return fail("resolve-error-after-parse", "text", err.Error())
	}
	if d := c17DiffTrees(c17Canon(rs), want, nil, nil); d != nil {
		d.Class = c17ClassOf(d)
		detail["difference_at"] = strings.Join(d.Path, " / ")
		detail["got"] = d.Got
		detail["want"] = d.Want
		return fail("resolved-differs", d.Class, "")
	}
	return nil
}

// features that may appear in a signature (hostile input classes); structural ones stay in the witness
func c17SigFeatures(a *ast.Schema) []string {
	var out []string
	for _, f := range c17Features(a) {
		switch {
		case strings.HasPrefix(f, "str:"), strings.HasPrefix(f, "namespace-segment:"), f == "empty-enum", f == "appliesTo:empty-list", f == "decl-named-like-builtin", f == "ref-spelled-Set",
			f == "common=entity-name", f == "annotation-key:reserved-keyword", f == "typeref:__cedar":
			out = append(out, f)
		}
	}
	return out
}

func c17JSONString(v any) string {
	b, err := json.Marshal(v)
	if err != nil {
		return fmt.Sprint(v)
	}
	return string(b)
}

func c17Renderings(a *ast.Schema) map[string]any {
	m := map[string]any{"ast": c17Dump(a)}
	s := schema.NewSchemaFromAST(a)
	var t, j []byte
	c17Call(func() (e error) { t, e = s.MarshalCedar(); return })
	c17Call(func() (e error) { j, e = s.MarshalJSON(); return })
	m["cedar_go_text"] = string(t)
	m["cedar_go_json"] = string(j)
	return m
}

type c17Case struct {
	a    *ast.Schema
	cat  string
	altR func() *mon.Rand
}

// c17CheckValid runs every path on a schema Resolve() accepts and reports (shrunk) failures.
func c17CheckValid(w *mon.W, cs c17Case) {
	a := cs.a
	w.Evals(1)
	feats := c17Features(a)
	for _, f := range feats {
		w.Count("input-feature: " + f)
	}
	r0, err, site, pm := c17Resolve(schema.NewSchemaFromAST(a))
	if site != "" {
		w.Violation("resolve:panic@"+site, "Resolve panics on a generated schema AST: "+pm, map[string]any{"ast": c17Dump(a), "panic": pm})
		return
	}
	if err != nil {
		w.Count("generator: schema does not resolve (skipped) [" + cs.cat + "]")
		w.Sample("skipped-unresolvable", map[string]any{"ast": c17Dump(a), "error": err.Error()})
		return
	}
	want := c17Canon(r0)
	key := c17JSONString(c17Dump(a))
	ndecl := len(r0.Entities) + len(r0.Enums) + len(r0.Actions)
	if ndecl > 0 {
		w.NonTrivial(key)
	}
	w.Count(fmt.Sprintf("resolved declarations: %s", c17Bucket(ndecl)))
	textOK := !c17TextAmbiguous(a)
	if !textOK {
		w.Count("domain: common type and entity type share a name -> JSON-only paths")
	}
	type run struct {
		path string
		f    func(c *ast.Schema, want map[string]any) *c17Fail
		text bool
	}
	single := []run{
		{"text", func(c *ast.Schema, wt map[string]any) *c17Fail { return c17RunPath(c, wt, "text", c17Text) }, true},
		{"json", func(c *ast.Schema, wt map[string]any) *c17Fail { return c17RunPath(c, wt, "json", c17JSON) }, false},
	}
	cross := []run{
		{"text->json", func(c *ast.Schema, wt map[string]any) *c17Fail {
			return c17RunPath(c, wt, "text->json", c17Text, c17JSON)
		}, true},
		{"json->text", func(c *ast.Schema, wt map[string]any) *c17Fail {
			return c17RunPath(c, wt, "json->text", c17JSON, c17Text)
		}, true},
		{"json->json", func(c *ast.Schema, wt map[string]any) *c17Fail {
			return c17RunPath(c, wt, "json->json", c17JSON, c17JSON)
		}, false},
		{"alt-text", func(c *ast.Schema, wt map[string]any) *c17Fail { return c17RunAlt(c, wt, cs.altR()) }, true},
	}
	anyFail := false
	report := func(rn run, f *c17Fail) {
		anyFail = true
		w.Count("path " + rn.path + ": " + f.Stage)
		reproduce := func(c *ast.Schema) *c17Fail {
			if rn.text && c17TextAmbiguous(c) {
				return nil
			}
			rc, err, site, _ := c17Resolve(schema.NewSchemaFromAST(c))
			if err != nil || site != "" {
				return nil
			}
			if dangling0 := c17Dangling(a); !dangling0 && c17Dangling(c) {
				return nil
			}
			tries := 1
			if f.Stage == "second-rendering-differs" {
				tries = 10 // possibly order-dependent (map iteration): give it several chances to show again
			}
			for ; tries > 0; tries-- {
				if f2 := rn.f(c, c17Canon(rc)); f2 != nil && f2.key() == f.key() {
					return f2
				}
			}
			return nil
		}
		min := c17Shrink(a, func(c *ast.Schema) bool { return reproduce(c) != nil }, 4000)
		fm := reproduce(min)
		if fm == nil {
			min, fm = a, f
		}
		sf := c17SigFeatures(min)
		sig := fmt.Sprintf("%s:%s %s [%s]", fm.Path, fm.Stage, fm.Class, strings.Join(sf, ","))
		if fm.Stage == "second-rendering-differs" {
			// idempotence / determinism of the printer: the input class is secondary (and shrinking is unreliable when map order matters)
			sig = fmt.Sprintf("%s:%s %s", fm.Path, fm.Stage, fm.Class)
		}
		if rn.text && c17BuiltinCaptured(min) && len(sf) == 1 && sf[0] == "decl-named-like-builtin" &&
			(fm.Stage == "resolve-error-after-roundtrip" || (fm.Stage == "resolved-differs" && strings.HasPrefix(fm.Class, "type ") && strings.HasSuffix(fm.Class, "want=builtin"))) {
			// one defect, many symptoms (the user type may be an entity, a record, another built-in, or form a cycle)
			sig = fm.Path + ":ast-builtin-type-captured-by-user-declaration-of-same-name"
		}
		wit := c17Renderings(min)
		wit["path"] = fm.Path
		wit["failure"] = fm.Stage
		for k, v := range fm.Detail {
			wit[k] = v
		}
		wit["minimal_schema_features"] = c17Features(min)
		wit["original_ast"] = c17Dump(a)
		what := fmt.Sprintf("schema %s: path %s: %s (%s) %v", c17JSONString(c17Dump(min)), fm.Path, fm.Stage, fm.Class, fm.Detail["error"])
		w.Violation(sig, what, wit)
	}
	for _, rn := range single {
		if rn.text && !textOK {
			continue
		}
		if f := rn.f(a, want); f != nil {
			report(rn, f)
		} else {
			w.Count("path " + rn.path + ": ok")
		}
	}
	if !anyFail {
		for _, rn := range cross {
			if rn.text && !textOK {
				continue
			}
			if f := rn.f(a, want); f != nil {
				report(rn, f)
			} else {
				w.Count("path " + rn.path + ": ok")
			}
		}
	}
	if !anyFail && w.Index%499 == 0 {
		w.Sample(cs.cat, c17Renderings(a))
	}
}

func c17Bucket(n int) string {
	switch {
	case n == 0:
		return "0"
	case n <= 2:
		return "1-2"
	case n <= 5:
		return "3-5"
	case n <= 10:
		return "6-10"
	}
	return ">10"
}

// c17CheckInvalid: a schema that does not resolve must not resolve after a round trip either
// (it may also be rejected by the parser).
func c17CheckInvalid(w *mon.W, a *ast.Schema, mutation string) {
	w.Evals(1)
	_, err0, site, pm := c17Resolve(schema.NewSchemaFromAST(a))
	if site != "" {
		w.Violation("resolve:panic@"+site, "Resolve panics on a generated schema AST: "+pm, map[string]any{"ast": c17Dump(a), "panic": pm})
		return
	}
	if err0 == nil {
		w.Count("generator: mutation left the schema resolvable (skipped): " + mutation)
		return
	}
	w.NonTrivial(c17JSONString(c17Dump(a)))
	w.Count("unresolvable input: " + mutation)
	for _, leg := range []c17leg{c17Text, c17JSON} {
		s := schema.NewSchemaFromAST(a)
		var b1, b2 []byte
		err, site, pm := c17Call(func() (e error) { b1, e = leg.marshal(s); return })
		if site != "" {
			w.Violation(leg.name+":panic marshal@"+site+" [unresolvable:"+mutation+"]", "marshalling panics: "+pm, map[string]any{"ast": c17Dump(a), "panic": pm})
			continue
		}
		if err != nil {
			w.Count("unresolvable " + leg.name + ": marshal refuses")
			continue
		}
		var next schema.Schema
		err, site, pm = c17Call(func() error { return leg.unmarshal(&next, b1) })
		if site != "" {
			w.Violation(leg.name+":panic unmarshal@"+site+" [unresolvable:"+mutation+"]", "parsing panics: "+pm, map[string]any{"ast": c17Dump(a), "rendering": string(b1), "panic": pm})
			continue
		}
		if err != nil {
			w.Count("unresolvable " + leg.name + ": parser rejects the rendering")
			continue
		}
		_, err, site, pm = c17Resolve(&next)
		if site != "" {
			w.Violation(leg.name+":panic resolve@"+site+" [unresolvable:"+mutation+"]", "Resolve panics after round trip: "+pm, map[string]any{"ast": c17Dump(a), "rendering": string(b1), "panic": pm})
			continue
		}
		if err == nil {
			w.Violation(leg.name+":unresolvable-schema-resolves-after-roundtrip ["+mutation+"]",
				fmt.Sprintf("schema %s fails to resolve (%v) but its %s rendering parses and resolves", c17JSONString(c17Dump(a)), err0, leg.name),
				map[string]any{"ast": c17Dump(a), "resolve_error_before": err0.Error(), "rendering": string(b1)})
			continue
		}
		w.Count("unresolvable " + leg.name + ": still unresolvable after round trip")
		err, site, _ = c17Call(func() (e error) { b2, e = leg.marshal(&next); return })
		if site == "" && err == nil && !bytes.Equal(b1, b2) {
			w.Violation(leg.name+":second-rendering-differs [unresolvable:"+mutation+"]", "second rendering differs from the first",
				map[string]any{"ast": c17Dump(a), "first": string(b1), "second": string(b2)})
		}
	}
}

// ---------------------------------------------------------------------------------------
// enumerated tables: every hostile string and identifier in every position, type forms,
// appliesTo combinations, empties

func c17Tables() []c17Case {
	var out []c17Case
	add := func(cat string, s *ast.Schema) { out = append(out, c17Case{a: s, cat: cat}) }
	S := func(x string) types.String { return types.String(x) }
	ent := func(xs ...string) []ast.EntityTypeRef {
		var o []ast.EntityTypeRef
		for _, x := range xs {
			o = append(o, ast.EntityTypeRef(x))
		}
		return o
	}
	// A. strings that may need quoting, in every position
	for _, s := range c17Strs {
		add("table:string-as-attribute-name", &ast.Schema{
			Entities:    ast.Entities{"E": {Shape: ast.RecordType{S(s): {Type: ast.String(), Optional: true, Annotations: ast.Annotations{"doc": "d"}}, "plain": {Type: ast.Long()}}}},
			CommonTypes: ast.CommonTypes{"T": {Type: ast.RecordType{S(s): {Type: ast.Set(ast.RecordType{S(s): {Type: ast.Long()}})}}}},
			Actions:     ast.Actions{"a": {AppliesTo: &ast.AppliesTo{Principals: ent("E"), Resources: ent("E"), Context: ast.RecordType{S(s): {Type: ast.TypeRef("T")}}}}},
		})
		add("table:string-as-action-name", &ast.Schema{
			Actions: ast.Actions{S(s): {}, "child of it": {Parents: []ast.ParentRef{ast.ParentRefFromID(S(s)), ast.NewParentRef("Action", S(s))}}},
			Namespaces: ast.Namespaces{"NS": {Actions: ast.Actions{S(s + "2"): {}, "child in ns": {Parents: []ast.ParentRef{ast.ParentRefFromID(S(s + "2")), ast.NewParentRef("NS::Action", S(s+"2")),
				ast.NewParentRef("Action", S(s))}}}}},
		})
		add("table:string-as-enum-value", &ast.Schema{
			Enums:      ast.Enums{"E": {Values: []types.String{S(s), "x"}}},
			Namespaces: ast.Namespaces{"NS": {Enums: ast.Enums{"F": {Values: []types.String{S(s)}}}}},
		})
		add("table:string-as-annotation-value", &ast.Schema{
			Entities:    ast.Entities{"E": {Annotations: ast.Annotations{"doc": S(s)}, Shape: ast.RecordType{"a": {Type: ast.Long(), Annotations: ast.Annotations{"doc": S(s), "other": ""}}}}},
			Enums:       ast.Enums{"F": {Annotations: ast.Annotations{"doc": S(s)}, Values: []types.String{"v"}}},
			CommonTypes: ast.CommonTypes{"T": {Annotations: ast.Annotations{"doc": S(s)}, Type: ast.Long()}},
			Actions:     ast.Actions{"a": {Annotations: ast.Annotations{"doc": S(s)}}},
			Namespaces:  ast.Namespaces{"NS": {Annotations: ast.Annotations{"doc": S(s)}}},
		})
	}
	// B. identifiers as declaration names
	reservedCommon := map[string]bool{"Bool": true, "Boolean": true, "Entity": true, "Extension": true, "Long": true, "Record": true, "Set": true, "String": true}
	var idents []string
	idents = append(idents, c17Plain[:3]...)
	idents = append(idents, c17Kwish...)
	idents = append(idents, c17EntityOnly...)
	idents = append(idents, c17Prims...)
	idents = append(idents, c17Exts...)
	idents = append(idents, "Set")
	builtins := func() ast.RecordType {
		return ast.RecordType{"s": {Type: ast.String()}, "l": {Type: ast.Long()}, "b": {Type: ast.Bool()}, "i": {Type: ast.IPAddr()}, "d": {Type: ast.Decimal()},
			"dt": {Type: ast.Datetime()}, "du": {Type: ast.Duration()}}
	}
	for _, x := range idents {
		X := types.Ident(x)
		refs := ast.RecordType{"a": {Type: ast.EntityTypeRef(x)}, "b": {Type: ast.TypeRef(x)}, "c": {Type: ast.Set(ast.TypeRef(x)), Optional: true}}
		add("table:ident-as-entity-name", &ast.Schema{
			Entities: ast.Entities{X: {}, "E9": {ParentTypes: ent(x), Shape: refs, Tags: ast.EntityTypeRef(x)}},
			Actions:  ast.Actions{"a": {AppliesTo: &ast.AppliesTo{Principals: ent(x), Resources: ent("E9", x)}}},
		})
		add("table:ident-as-entity-name+ast-builtins", &ast.Schema{
			Entities: ast.Entities{X: {}, "E9": {Shape: builtins()}},
		})
		add("table:ident-as-namespaced-entity-name", &ast.Schema{
			Namespaces: ast.Namespaces{
				"NS": {Entities: ast.Entities{X: {}, "E9": {ParentTypes: ent(x, "NS::"+x), Shape: ast.RecordType{"a": {Type: ast.EntityTypeRef(x)}, "b": {Type: ast.TypeRef("NS::" + x)}, "c": {Type: ast.TypeRef(x)}}}}},
				"M":  {Entities: ast.Entities{"F": {Shape: ast.RecordType{"a": {Type: ast.EntityTypeRef("NS::" + x)}, "b": {Type: ast.TypeRef("NS::" + x)}}}}, Actions: ast.Actions{"a": {AppliesTo: &ast.AppliesTo{Principals: ent("NS::" + x), Resources: ent("F")}}}},
			},
		})
		add("table:ident-as-namespaced-entity-name+ast-builtins", &ast.Schema{
			Namespaces: ast.Namespaces{"NS": {Entities: ast.Entities{X: {}, "E9": {Shape: builtins()}}}},
		})
		add("table:ident-as-enum-name", &ast.Schema{
			Enums:    ast.Enums{X: {Values: []types.String{"a", "b"}}},
			Entities: ast.Entities{"E9": {ParentTypes: ent(x), Shape: refs}},
		})
		if !reservedCommon[x] {
			add("table:ident-as-common-type-name", &ast.Schema{
				CommonTypes: ast.CommonTypes{X: {Type: ast.RecordType{"a": {Type: ast.Long()}}}},
				Entities:    ast.Entities{"E9": {Shape: ast.RecordType{"b": {Type: ast.TypeRef(x)}, "c": {Type: ast.Set(ast.TypeRef(x))}}, Tags: ast.TypeRef(x)}},
				Actions:     ast.Actions{"a": {AppliesTo: &ast.AppliesTo{Principals: ent("E9"), Resources: ent("E9"), Context: ast.TypeRef(x)}}},
			})
			add("table:ident-as-common-type-name+ast-builtins", &ast.Schema{
				CommonTypes: ast.CommonTypes{X: {Type: ast.RecordType{"a": {Type: ast.Long()}}}},
				Entities:    ast.Entities{"E9": {Shape: builtins()}},
			})
			add("table:ident-as-namespaced-common-type-name", &ast.Schema{
				Namespaces: ast.Namespaces{
					"NS": {CommonTypes: ast.CommonTypes{X: {Type: ast.RecordType{"a": {Type: ast.Long()}}}}, Entities: ast.Entities{"E9": {Shape: ast.RecordType{"b": {Type: ast.TypeRef(x)}, "c": {Type: ast.TypeRef("NS::" + x)}}}}},
					"M":  {Entities: ast.Entities{"F": {Tags: ast.TypeRef("NS::" + x)}}, Actions: ast.Actions{"a": {AppliesTo: &ast.AppliesTo{Principals: ent("F"), Resources: ent("F"), Context: ast.TypeRef("NS::" + x)}}}},
				},
			})
		}
	}
	// B2. every schema-grammar keyword / built-in identifier as a namespace name (alone and as the first,
	// middle and last segment) with qualified references into it in every position the grammar has
	nsIdents := append(append([]string{}, idents...), "Action")
	for _, x := range nsIdents {
		for _, N := range []string{x, "A::" + x, x + "::B", "A::" + x + "::B", x + "::" + x} {
			q := func(base string) string { return N + "::" + base }
			add("table:ident-as-namespace-segment", &ast.Schema{
				Entities: ast.Entities{"G": {Shape: ast.RecordType{"a": {Type: ast.TypeRef(q("Item"))}, "b": {Type: ast.Set(ast.EntityTypeRef(q("E")))}}, Tags: ast.TypeRef(q("T3"))}},
				Namespaces: ast.Namespaces{
					types.Path(N): {
						Entities: ast.Entities{"Item": {}, "E": {ParentTypes: ent(q("Item"), "Item"), Tags: ast.TypeRef(q("Item")), Shape: ast.RecordType{
							"a": {Type: ast.TypeRef(q("Item"))}, "b": {Type: ast.EntityTypeRef(q("Item")), Optional: true}, "c": {Type: ast.Set(ast.TypeRef(q("Item")))},
							"d": {Type: ast.Set(ast.Set(ast.EntityTypeRef(q("Item"))))}, "e": {Type: ast.RecordType{"x": {Type: ast.TypeRef(q("CT"))}}}, "f": {Type: ast.TypeRef("Item")}}}},
						CommonTypes: ast.CommonTypes{"CT": {Type: ast.RecordType{"k": {Type: ast.EntityTypeRef(q("Item"))}}}, "T2": {Type: ast.Set(ast.TypeRef(q("CT")))}, "T3": {Type: ast.TypeRef(q("Item"))}},
						Actions: ast.Actions{"a": {AppliesTo: &ast.AppliesTo{Principals: ent(q("Item")), Resources: ent(q("E"), "E"), Context: ast.TypeRef(q("CT"))}},
							"b": {Parents: []ast.ParentRef{ast.NewParentRef(ast.EntityTypeRef(q("Action")), "a")}, AppliesTo: &ast.AppliesTo{Principals: ent("Item"), Resources: ent("Item"), Context: ast.RecordType{"p": {Type: ast.TypeRef(q("Item"))}}}}},
					},
					"Other": {
						Entities: ast.Entities{"F": {ParentTypes: ent(q("Item")), Shape: ast.RecordType{"a": {Type: ast.TypeRef(q("Item"))}, "s": {Type: ast.Set(ast.EntityTypeRef(q("E")))}}, Tags: ast.Set(ast.TypeRef(q("T3")))}},
						Actions:  ast.Actions{"o": {Parents: []ast.ParentRef{ast.NewParentRef(ast.EntityTypeRef(q("Action")), "a")}, AppliesTo: &ast.AppliesTo{Principals: ent(q("Item")), Resources: ent("F"), Context: ast.TypeRef(q("CT"))}}},
					},
				},
			})
		}
	}
	for _, k := range c17AnnoKeys {
		K := types.Ident(k)
		add("table:annotation-key", &ast.Schema{
			Entities:   ast.Entities{"E": {Annotations: ast.Annotations{K: "v", "z": ""}, Shape: ast.RecordType{"a": {Type: ast.Long(), Annotations: ast.Annotations{K: ""}}}}},
			Actions:    ast.Actions{"a": {Annotations: ast.Annotations{K: "v"}}},
			Namespaces: ast.Namespaces{"NS": {Annotations: ast.Annotations{K: "v"}, CommonTypes: ast.CommonTypes{"T": {Annotations: ast.Annotations{K: "v"}, Type: ast.Long()}}}},
		})
	}
	// C. type forms in every position
	var forms []ast.IsType
	forms = append(forms, ast.String(), ast.Long(), ast.Bool(), ast.IPAddr(), ast.Decimal(), ast.Datetime(), ast.Duration())
	for _, n := range append(append([]string{}, c17Prims...), c17Exts...) {
		forms = append(forms, ast.TypeRef(n), ast.TypeRef("__cedar::"+n))
	}
	forms = append(forms, ast.EntityTypeRef("U"), ast.TypeRef("U"), ast.EntityTypeRef("NS::V"), ast.TypeRef("NS::V"), ast.TypeRef("CT"), ast.TypeRef("NS::CT3"),
		ast.RecordType{}, ast.RecordType{"x": {Type: ast.RecordType{"y": {Type: ast.RecordType{}, Optional: true}}}}, ast.Set(ast.Set(ast.Set(ast.Long()))), ast.Set(ast.RecordType{}))
	for _, f := range forms {
		add("table:type-form", &ast.Schema{
			Entities:    ast.Entities{"U": {}, "E": {Shape: ast.RecordType{"a": {Type: c17CloneType(f)}, "o": {Type: ast.Set(c17CloneType(f)), Optional: true}}, Tags: c17CloneType(f)}},
			CommonTypes: ast.CommonTypes{"CT": {Type: ast.RecordType{"k": {Type: ast.Long()}}}, "Alias": {Type: c17CloneType(f)}, "Ctx": {Type: ast.RecordType{"f": {Type: ast.TypeRef("Alias")}}}},
			Actions:     ast.Actions{"a": {AppliesTo: &ast.AppliesTo{Principals: ent("U"), Resources: ent("E"), Context: ast.TypeRef("Ctx")}}},
			Namespaces: ast.Namespaces{"NS": {Entities: ast.Entities{"V": {Tags: c17CloneType(f)}}, CommonTypes: ast.CommonTypes{"CT2": {Type: ast.Set(c17CloneType(f))}, "CT3": {Type: ast.RecordType{"z": {Type: ast.TypeRef("CT")}}}},
				Actions: ast.Actions{"a2": {AppliesTo: &ast.AppliesTo{Principals: ent("V", "U"), Resources: ent("NS::V"), Context: ast.RecordType{"f": {Type: c17CloneType(f)}}}}}}},
		})
	}
	// D. appliesTo combinations
	lists := [][]ast.EntityTypeRef{nil, {}, ent("U"), ent("U", "G"), ent("G", "U", "G")}
	ctxs := []ast.IsType{nil, ast.RecordType{}, ast.RecordType{"a": {Type: ast.Long(), Optional: true}}, ast.TypeRef("Ctx")}
	for _, p := range lists {
		for _, r := range lists {
			for _, c := range ctxs {
				add("table:appliesTo", &ast.Schema{
					Entities:    ast.Entities{"U": {}, "G": {}},
					CommonTypes: ast.CommonTypes{"Ctx": {Type: ast.RecordType{"k": {Type: ast.EntityTypeRef("U")}}}},
					Actions:     ast.Actions{"a": {AppliesTo: &ast.AppliesTo{Principals: c17CloneRefs(p), Resources: c17CloneRefs(r), Context: c17CloneType(c)}}, "b": {}},
				})
			}
		}
	}
	// E. enums
	for _, vals := range [][]types.String{nil, {}, {"a"}, {"a", "a"}, {"b", "a", ""}} {
		add("table:enum", &ast.Schema{Enums: ast.Enums{"E": {Values: vals}}})
		add("table:enum", &ast.Schema{
			Namespaces: ast.Namespaces{"NS": {Enums: ast.Enums{"E": {Values: vals, Annotations: ast.Annotations{"doc": "x"}}}, Entities: ast.Entities{"F": {ParentTypes: ent("E"), Shape: ast.RecordType{"e": {Type: ast.TypeRef("E")}}}},
				Actions: ast.Actions{"a": {AppliesTo: &ast.AppliesTo{Principals: ent("E"), Resources: ent("NS::E")}}}}},
		})
	}
	// F. empties: nil vs empty containers
	add("table:empty", &ast.Schema{})
	add("table:empty", &ast.Schema{Entities: ast.Entities{}, Enums: ast.Enums{}, Actions: ast.Actions{}, CommonTypes: ast.CommonTypes{}, Namespaces: ast.Namespaces{}})
	add("table:empty", &ast.Schema{Namespaces: ast.Namespaces{"NS": {}, "A::B": {Annotations: ast.Annotations{}}, "C": {Annotations: ast.Annotations{"doc": ""}, Entities: ast.Entities{}, Actions: ast.Actions{}}}})
	add("table:empty", &ast.Schema{Entities: ast.Entities{"E": {Annotations: ast.Annotations{}, ParentTypes: []ast.EntityTypeRef{}, Shape: ast.RecordType{}}, "F": {}},
		Actions: ast.Actions{"a": {Annotations: ast.Annotations{}, Parents: []ast.ParentRef{}}, "": {}}})
	// G. action groups across namespaces
	add("table:action-groups", &ast.Schema{
		Actions: ast.Actions{"root": {}, "mid": {Parents: []ast.ParentRef{ast.ParentRefFromID("root")}}, "leaf": {Parents: []ast.ParentRef{ast.ParentRefFromID("mid"), ast.NewParentRef("Action", "root"), ast.NewParentRef("NS::Action", "g")}}},
		Namespaces: ast.Namespaces{"NS": {Actions: ast.Actions{"g": {}, "h": {Parents: []ast.ParentRef{ast.ParentRefFromID("g"), ast.NewParentRef("NS::Action", "g"), ast.NewParentRef("Action", "root")}},
			"i j": {Parents: []ast.ParentRef{ast.NewParentRef("A::B::Action", "k")}}}},
			"A::B": {Actions: ast.Actions{"k": {}}}},
	})
	// H. chains of common types across namespaces
	add("table:common-type-chain", &ast.Schema{
		CommonTypes: ast.CommonTypes{"A": {Type: ast.TypeRef("B")}, "B": {Type: ast.RecordType{"x": {Type: ast.TypeRef("C"), Optional: true}}}, "C": {Type: ast.Set(ast.TypeRef("NS::D"))}},
		Entities:    ast.Entities{"E": {Shape: ast.RecordType{"a": {Type: ast.TypeRef("A")}}, Tags: ast.TypeRef("NS::D")}},
		Actions:     ast.Actions{"a": {AppliesTo: &ast.AppliesTo{Principals: ent("E"), Resources: ent("NS::F"), Context: ast.TypeRef("A")}}},
		Namespaces: ast.Namespaces{"NS": {CommonTypes: ast.CommonTypes{"D": {Type: ast.TypeRef("D2")}, "D2": {Type: ast.EntityTypeRef("F")}}, Entities: ast.Entities{"F": {Shape: ast.RecordType{"d": {Type: ast.TypeRef("D")}, "a": {Type: ast.TypeRef("A")}}}},
			Actions: ast.Actions{"a2": {AppliesTo: &ast.AppliesTo{Principals: ent("E"), Resources: ent("F"), Context: ast.TypeRef("B")}}}}},
	})
	// I. a common type and an entity type with one name (JSON-only domain)
	add("table:common=entity-name", &ast.Schema{
		CommonTypes: ast.CommonTypes{"T": {Type: ast.Long()}},
		Entities:    ast.Entities{"T": {}, "E": {Shape: ast.RecordType{"a": {Type: ast.EntityTypeRef("T")}, "b": {Type: ast.TypeRef("T")}}}},
	})
	return out
}

func c17contains(xs []string, x string) bool {
	for _, y := range xs {
		if x == y {
			return true
		}
	}
	return false
}

// ---------------------------------------------------------------------------------------

func C17(c *mon.Ctx) {
	c.Rule = "case = one schema AST built programmatically (own generator: namespaces, chained common types, nested records, optional attributes, sets, entity/extension/common references " +
		"qualified and unqualified, enums, action groups with qualified and unqualified parents, annotations, names over every character class, schema-grammar keywords and built-in type names as declaration names and as namespace segments (Set, entity, String, ... alone and as first/middle/last segment) with qualified references into those namespaces in every type position, parent list, principal/resource list and action-parent type, nil vs empty containers). " +
		"Oracle: Resolve() of the in-memory AST (no codec involved) vs Resolve() after MarshalCedar/UnmarshalCedar, MarshalJSON/UnmarshalJSON, text->JSON, JSON->text, JSON->JSON and after parsing the text of an independent printer " +
		"(multi-name declarations, optional '=', trailing commas, comments, bracketed singletons, alternative escapes); compared semantically (nil==empty, parent/principal/resource/enum-value lists as sets, annotations by key); " +
		"second rendering must be byte-identical to the first. Unresolvable schemas (14 mutation kinds both formats can express) must stay unresolvable or be rejected by the parser. " +
		"Failing cases are shrunk to a minimal AST before the signature is built. distinct_nontrivial = distinct ASTs (explicit dump) with at least one entity, enum or action (or, in the unresolvable stream, distinct unresolvable ASTs)."
	c.Assume = []string{
		"only ASTs that cedar-go's Resolve() accepts take part in the equality checks; identifiers (type, namespace, annotation names) are valid non-reserved Cedar identifiers, extension types are the four known ones, all strings are valid UTF-8",
		"common type names avoid the names the Cedar grammar reserves for them (Bool, Boolean, Entity, Extension, Long, Record, Set, String); cedar-go's Resolve does not reject them but the text parser (correctly) does",
		"a common type and an entity type with the same fully qualified name cannot be told apart in the text format where a type is expected: a schema takes the JSON paths only if an explicit entity reference to such a name stands in a type position (attribute, element, tags, context, common-type body); with the name only in parent / principal / resource lists, or referenced as a plain type name, it takes every path",
		"an action with no appliesTo and an action whose principal or resource list is empty are both 'never applicable' and compare equal (the text format cannot spell an empty list)",
		"an entity type and an enum of one name in one namespace (only expressible in the AST, rejected by Resolve) are not generated",
		"namespace segments range over plain identifiers and every schema-grammar keyword / built-in type name the pinned text parser accepts there (Set, Action, entity, action, type, namespace, enum, tags, appliesTo, principal, resource, context, attributes, Entity, Record, Extension, String, Long, Bool, Boolean, ipaddr, decimal, datetime, duration); the reserved Cedar keywords in, is, if, then, else, like, has, true, false and __cedar are rejected by the parser as identifiers (probed) and stay excluded from type, namespace and path-segment names",
	}
	c.Floor = 2000
	depth := 2
	if c.Thorough() {
		depth = 3
	}
	tables := c17Tables()
	c.Extra["table_cases"] = len(tables)
	c.Extra["strings_universe"] = len(c17Strs)
	c.ParFor("tables", len(tables), func(w *mon.W, i int) {
		cs := tables[i]
		cs.a = c17Clone(cs.a)
		cs.altR = func() *mon.Rand { return w.RandSub("alt") }
		w.Count("stream " + cs.cat)
		c17CheckValid(w, cs)
	})
	c.ParFor("random", c.N(6000, 120000), func(w *mon.W, i int) {
		r := w.Rand()
		cfg := c17cfg{hostile: 0.01, depth: depth}
		cat := "random"
		switch {
		case i%10 == 9:
			cfg.collide = true
			cat = "random:common=entity-names-allowed"
		case i%10 < 5:
			cfg.hostile = 0
			cat = "random:no-hostile-names"
		}
		a := c17Gen(r, cfg)
		c17CheckValid(w, c17Case{a: a, cat: cat, altR: func() *mon.Rand { return w.RandSub("alt") }})
	})
	c.ParFor("unresolvable", c.N(1400, 28000), func(w *mon.W, i int) {
		r := w.Rand()
		a := c17Gen(r, c17cfg{hostile: 0, depth: 1})
		m := c17Mutations[i%len(c17Mutations)]
		c17Mutate(a, m)
		c17CheckInvalid(w, a, m)
	})
}
