package props

import (
	"fmt"
	"strings"

	cedar "github.com/cedar-policy/cedar-go"
	"github.com/cedar-policy/cedar-go/x/exp/ast"

	"verif/internal/bridge"
	"verif/internal/gen"
	"verif/internal/model"
	"verif/internal/mon"
	"verif/internal/render"
)

func init() { Registry["C07"] = C07 }

func parseOne(text string) (p *ast.Policy, err error, pan string) {
	defer func() {
		if r := recover(); r != nil {
			pan = fmt.Sprint(r)
		}
	}()
	var cp cedar.Policy
	if e := cp.UnmarshalCedar([]byte(text)); e != nil {
		return nil, e, ""
	}
	return (*ast.Policy)(cp.AST()), nil, ""
}

// c07nodes: one constructor per node kind, taking operands from a supplier.
type c07ctor struct {
	name  string
	arity int
	mk    func(a []*model.Expr) *model.Expr
}

func c07ctors() []c07ctor {
	b := func(op model.Op) c07ctor {
		return c07ctor{op.String(), 2, func(a []*model.Expr) *model.Expr { return model.Bin(op, a[0], a[1]) }}
	}
	u := func(op model.Op) c07ctor {
		return c07ctor{op.String(), 1, func(a []*model.Expr) *model.Expr { return model.Un(op, a[0]) }}
	}
	out := []c07ctor{
		b(model.OOr), b(model.OAnd), b(model.OEq), b(model.ONe), b(model.OLt), b(model.OLe), b(model.OGt), b(model.OGe), b(model.OIn),
		b(model.OAdd), b(model.OSub), b(model.OMul), u(model.ONot), u(model.ONeg),
		{"if", 3, func(a []*model.Expr) *model.Expr { return model.If(a[0], a[1], a[2]) }},
		{"has", 1, func(a []*model.Expr) *model.Expr { return model.Has(a[0], "attr") }},
		{"has-str", 1, func(a []*model.Expr) *model.Expr { return model.Has(a[0], "not an ident") }},
		{"like", 1, func(a []*model.Expr) *model.Expr { return model.Like(a[0], []model.PatElem{{Lit: "a"}, {Wild: true}}) }},
		{"is", 1, func(a []*model.Expr) *model.Expr { return model.Is(a[0], "NS::T") }},
		{"isIn", 2, func(a []*model.Expr) *model.Expr { return model.IsIn(a[0], "U", a[1]) }},
		{".attr", 1, func(a []*model.Expr) *model.Expr { return model.Access(a[0], "attr") }},
		{"[\"attr\"]", 1, func(a []*model.Expr) *model.Expr { return model.Access(a[0], "if") }},
		b(model.OHasTag), b(model.OGetTag), b(model.OContains), b(model.OContainsAll), b(model.OContainsAny), u(model.OIsEmpty),
		{"set", 2, func(a []*model.Expr) *model.Expr { return model.SetE(a[0], a[1]) }},
		{"record", 2, func(a []*model.Expr) *model.Expr { return model.RecE([]string{"k", "two words"}, []*model.Expr{a[0], a[1]}) }},
		{"decimal()", 1, func(a []*model.Expr) *model.Expr { return model.Ext("decimal", a[0]) }},
		{"ip()", 1, func(a []*model.Expr) *model.Expr { return model.Ext("ip", a[0]) }},
		{".lessThan()", 2, func(a []*model.Expr) *model.Expr { return model.Ext("lessThan", a[0], a[1]) }},
		{".isInRange()", 2, func(a []*model.Expr) *model.Expr { return model.Ext("isInRange", a[0], a[1]) }},
		{".offset()", 2, func(a []*model.Expr) *model.Expr { return model.Ext("offset", a[0], a[1]) }},
		{".toDate()", 1, func(a []*model.Expr) *model.Expr { return model.Ext("toDate", a[0]) }},
		{".isIpv4()", 1, func(a []*model.Expr) *model.Expr { return model.Ext("isIpv4", a[0]) }},
	}
	return out
}

func c07atoms() []*model.Expr {
	return []*model.Expr{model.Lit(model.Bool(true)), model.Lit(model.Long(1)), model.Lit(model.Long(-1)), model.Lit(model.Long(-9223372036854775808)),
		model.Lit(model.Str("s")), model.Lit(model.Ent("NS::T", "id")), model.Var("principal"), model.Var("context")}
}

// c07fixed: hand-written texts with the tree the grammar prescribes.
func c07fixed() []struct {
	text string
	want *model.Expr
} {
	l := func(i int64) *model.Expr { return model.Lit(model.Long(i)) }
	t := model.Lit(model.Bool(true))
	p := model.Var("principal")
	neg := func(e *model.Expr) *model.Expr { return model.Un(model.ONeg, e) }
	not := func(e *model.Expr) *model.Expr { return model.Un(model.ONot, e) }
	return []struct {
		text string
		want *model.Expr
	}{
		{"!!true", not(not(t))},
		{"!!!!true", not(not(not(not(t))))},
		{"-1", l(-1)},
		{"- 1", l(-1)},
		{"--1", neg(l(-1))},
		{"-(1)", neg(l(1))},
		{"-(-1)", neg(l(-1))},
		{"-9223372036854775808", l(-9223372036854775808)},
		{"--9223372036854775808", neg(l(-9223372036854775808))},
		{"!-1 == 1", model.Bin(model.OEq, not(l(-1)), l(1))},
		{"-principal.x", neg(model.Access(p, "x"))},
		{"-1.foo", neg(model.Access(l(1), "foo"))},
		{"-1[\"foo\"]", neg(model.Access(l(1), "foo"))},
		{"(-1).foo", model.Access(l(-1), "foo")},
		{"1 - -1", model.Bin(model.OSub, l(1), l(-1))},
		{"1 - 2 - 3", model.Bin(model.OSub, model.Bin(model.OSub, l(1), l(2)), l(3))},
		{"1 - (2 - 3)", model.Bin(model.OSub, l(1), model.Bin(model.OSub, l(2), l(3)))},
		{"1 + 2 * 3", model.Bin(model.OAdd, l(1), model.Bin(model.OMul, l(2), l(3)))},
		{"1 * 2 + 3", model.Bin(model.OAdd, model.Bin(model.OMul, l(1), l(2)), l(3))},
		{"(1 + 2) * 3", model.Bin(model.OMul, model.Bin(model.OAdd, l(1), l(2)), l(3))},
		{"true || true && true", model.Bin(model.OOr, t, model.Bin(model.OAnd, t, t))},
		{"true && true || true", model.Bin(model.OOr, model.Bin(model.OAnd, t, t), t)},
		{"true || true || true", model.Bin(model.OOr, model.Bin(model.OOr, t, t), t)},
		{"1 + 1 == 2 && true", model.Bin(model.OAnd, model.Bin(model.OEq, model.Bin(model.OAdd, l(1), l(1)), l(2)), t)},
		{"!true && true", model.Bin(model.OAnd, not(t), t)},
		{"if true then 1 else 2 + 3", model.If(t, l(1), model.Bin(model.OAdd, l(2), l(3)))},
		{"(if true then 1 else 2) + 3", model.Bin(model.OAdd, model.If(t, l(1), l(2)), l(3))},
		{"if true then if true then 1 else 2 else 3", model.If(t, model.If(t, l(1), l(2)), l(3))},
		{"principal has a.b.c", model.Bin(model.OAnd, model.Bin(model.OAnd, model.Has(p, "a"), model.Has(model.Access(p, "a"), "b")), model.Has(model.Access(model.Access(p, "a"), "b"), "c"))},
		{"principal has a && true", model.Bin(model.OAnd, model.Has(p, "a"), t)},
		{"principal is U in principal || true", model.Bin(model.OOr, model.IsIn(p, "U", p), t)},
		{"principal is U in principal.x + 1", model.IsIn(p, "U", model.Bin(model.OAdd, model.Access(p, "x"), l(1)))},
		{"principal.a.b[\"c\"].contains(1).d", model.Access(model.Bin(model.OContains, model.Access(model.Access(model.Access(p, "a"), "b"), "c"), l(1)), "d")},
		{"[1, 2,]", model.SetE(l(1), l(2))},
		{"[]", model.SetE()},
		{"{}", model.RecE(nil, nil)},
		{"{a: 1, \"b c\": 2,}", model.RecE([]string{"a", "b c"}, []*model.Expr{l(1), l(2)})},
		{"\"a\\n\\r\\t\\\\\\0\\'\\\"\\x41\\u{1F600}\\u{0}\"", model.Lit(model.Str("a\n\r\t\\\x00'\"A\U0001F600\x00"))},
		{"\"x\" like \"a\\*b*\\\\*\"", model.Like(model.Lit(model.Str("x")), []model.PatElem{{Lit: "a*b"}, {Wild: true, Lit: "\\"}, {Wild: true}})},
		{"\"x\" like \"**\"", model.Like(model.Lit(model.Str("x")), []model.PatElem{{Wild: true}})},
		{"\"x\" like \"\"", model.Like(model.Lit(model.Str("x")), nil)},
		{"A::B::C::\"x\\\"y\" == principal", model.Bin(model.OEq, model.Lit(model.Ent("A::B::C", "x\"y")), p)},
		{"ip(\"1.2.3.4\").isInRange(ip(\"1.0.0.0/8\"))", model.Ext("isInRange", model.Ext("ip", model.Lit(model.Str("1.2.3.4"))), model.Ext("ip", model.Lit(model.Str("1.0.0.0/8"))))},
		{"context.a.lessThan(decimal(\"1.0\"))", model.Ext("lessThan", model.Access(model.Var("context"), "a"), model.Ext("decimal", model.Lit(model.Str("1.0"))))},
		{"principal.hasTag(\"a\") && principal.getTag(\"a\") == 1", model.Bin(model.OAnd, model.Bin(model.OHasTag, p, model.Lit(model.Str("a"))), model.Bin(model.OEq, model.Bin(model.OGetTag, p, model.Lit(model.Str("a"))), l(1)))},
		{"[1].isEmpty()", model.Un(model.OIsEmpty, model.SetE(l(1)))},
		// INT ::= ['0'-'9']+ : leading zeros are decimal digits, not a base prefix
		{"010", l(10)}, {"0042 + 08", model.Bin(model.OAdd, l(42), l(8))}, {"09", l(9)}, {"00", l(0)}, {"-010", l(-10)}, {"-0", l(0)}, {"019 == 19", model.Bin(model.OEq, l(19), l(19))},
		{"0009223372036854775807", l(9223372036854775807)}, {"-009223372036854775808", l(-9223372036854775808)},
		{"1 < 2 == true", nil}, // chained relation: must be rejected (listed below too)
	}
}

var c07reject = []struct{ cat, expr string }{
	{"chained-relation", "1 < 2 < 3"}, {"chained-relation", "1 == 2 == 3"}, {"chained-relation", "1 < 2 == true"}, {"chained-relation", "principal in resource in action"},
	{"chained-relation", "principal has a has b"}, {"chained-relation", "\"a\" like \"b\" like \"c\""}, {"chained-relation", "1 != 2 >= 3"},
	{"reserved-word", "if"}, {"reserved-word", "then"}, {"reserved-word", "else == 1"}, {"reserved-word", "in"}, {"reserved-word", "has"}, {"reserved-word", "like"}, {"reserved-word", "is"},
	{"unknown-identifier", "foo"}, {"unknown-identifier", "Principal"}, {"unknown-identifier", "principal2"},
	{"duplicate-record-key", "{a: 1, a: 2}"}, {"duplicate-record-key", "{\"a\": 1, a: 2}"}, {"duplicate-record-key", "{\"a b\": 1, \"a b\": 2}"},
	{"unknown-function", "foo(1)"}, {"unknown-function", "principal.foo(1)"}, {"unknown-function", "NS::decimal(\"1.0\")"}, {"unknown-function", "principal.contain(1)"},
	{"method-as-function", "lessThan(decimal(\"1.0\"), decimal(\"2.0\"))"}, {"method-as-function", "isIpv4(ip(\"1.1.1.1\"))"}, {"method-as-function", "toDate(datetime(\"2020-01-01\"))"},
	{"function-as-method", "\"1.0\".decimal()"}, {"function-as-method", "principal.ip()"}, {"function-as-method", "\"2020-01-01\".datetime()"},
	{"unterminated", "\"abc"}, {"unterminated", "principal like \"a"}, {"unterminated", "U::\"a"},
	{"malformed-number", "0x10"}, {"malformed-number", "0b1"}, {"malformed-number", "0o7"}, {"malformed-number", "1_000"}, {"malformed-number", "1e3"}, {"malformed-number", "1.5"}, {"malformed-number", "0009223372036854775808"},
	{"integer-range", "9223372036854775808"}, {"integer-range", "-9223372036854775809"}, {"integer-range", "99999999999999999999"},
	{"bad-escape", "\"\\q\""}, {"bad-escape", "\"\\u{110000}\""}, {"bad-escape", "\"\\u{d800}\""}, {"bad-escape", "\"\\x80\""}, {"bad-escape", "\"\\u{}\""}, {"bad-escape", "\"\\u{1234567}\""}, {"bad-escape", "\"\\*\""},
	{"malformed-expression", "1 +"}, {"malformed-expression", ""}, {"malformed-expression", "(1"}, {"malformed-expression", "1)"}, {"malformed-expression", "[1, 2"}, {"malformed-expression", "{a 1}"},
	{"malformed-expression", "principal has 1"}, {"malformed-expression", "principal like principal"}, {"malformed-expression", "principal is \"T\""}, {"malformed-expression", "principal."},
	{"malformed-expression", "principal[a]"}, {"malformed-expression", "if true then 1"}, {"malformed-expression", "1 2"}, {"malformed-expression", "&& true"}, {"malformed-expression", "true & true"}, {"malformed-expression", "true | true"},
	{"malformed-expression", "1 / 2"}, {"malformed-expression", "1 % 2"}, {"malformed-expression", "1 = 1"},
}

var c07rejectPolicies = []struct{ cat, text string }{
	{"duplicate-annotation", `@a("1") @a("2") permit(principal, action, resource);`},
	{"duplicate-annotation", `@a("1") @b("x") @a("1") forbid(principal, action, resource);`},
	{"scope", `permit(principal, action);`}, {"scope", `permit(action, principal, resource);`}, {"scope", `permit(principal, action, resource, context);`},
	{"scope", `permit(principal in [U::"a"], action, resource);`}, {"scope", `permit(principal, action is T, resource);`}, {"scope", `permit(principal, action, resource in [U::"a"]);`},
	{"scope", `permit(principal == U::"a" == U::"b", action, resource);`}, {"scope", `permit(principal != U::"a", action, resource);`}, {"scope", `permit(principal == 1, action, resource);`},
	{"scope", `permit(principal == principal, action, resource);`}, {"scope", `permit(principal is, action, resource);`}, {"scope", `permit(principal in U::"a" is U, action, resource);`},
	{"effect", `allow(principal, action, resource);`}, {"effect", `Permit(principal, action, resource);`}, {"effect", `(principal, action, resource);`},
	{"terminator", `permit(principal, action, resource)`}, {"terminator", `permit(principal, action, resource) when { true }`},
	{"condition", `permit(principal, action, resource) when true;`}, {"condition", `permit(principal, action, resource) if { true };`}, {"condition", `permit(principal, action, resource) when { true } else { false };`},
	{"condition", `permit(principal, action, resource) when { };`},
	{"annotation", `@("x") permit(principal, action, resource);`}, {"annotation", `@a(1) permit(principal, action, resource);`}, {"annotation", `@a("x" permit(principal, action, resource);`},
}

func c07compare(w *mon.W, mp *model.Policy, text, rendering string) bool {
	p, err, pan := parseOne(text)
	w.Evals(1)
	want := bridge.SPolicy(mp)
	switch {
	case pan != "":
		w.Violation("parser panics", "UnmarshalCedar panicked: "+pan, map[string]any{"text": text})
		return false
	case err != nil:
		sig, what := c07classify(mp, text, rendering, func(t string) string {
			_, e, _ := parseOne(t)
			if e != nil {
				return "error"
			}
			return "ok"
		}, "error")
		w.Violation("grammatical text rejected: "+sig, fmt.Sprintf("%s; parser says: %v", what, err), map[string]any{"text": text, "rendering": rendering, "error": err.Error(), "expected_tree": want})
		return false
	}
	got, cerr := bridge.FromPolicy(p)
	if cerr != nil {
		w.Violation("parsed AST not convertible", cerr.Error(), map[string]any{"text": text})
		return false
	}
	if g := bridge.SPolicy(got); g != want {
		sig, what := c07classify(mp, text, rendering, func(t string) string {
			q, e, _ := parseOne(t)
			if e != nil {
				return "error"
			}
			gq, ce := bridge.FromPolicy(q)
			if ce != nil {
				return "error"
			}
			return bridge.SPolicy(gq)
		}, "")
		w.Violation("wrong tree: "+sig, what, map[string]any{"text": text, "rendering": rendering, "got_tree": g, "expected_tree": want})
		return false
	}
	return true
}

// c07classify localises a failing policy to its smallest failing sub-expression (each
// sub-expression is re-rendered as its own one-condition policy) and describes it by the
// operator pair at its root.
func c07classify(mp *model.Policy, text, rendering string, run func(text string) string, bad string) (sig, what string) {
	pr := &render.Printer{}
	if strings.HasPrefix(rendering, "full") {
		pr.Mode = render.Full
	}
	fails := func(e *model.Expr) bool {
		one := &model.Policy{Permit: true, Conds: []model.Cond{{When: true, Body: e}}}
		out := run(pr.Policy(one))
		if bad != "" {
			return out == bad
		}
		return out != bridge.SPolicy(one)
	}
	var culprit *model.Expr
	for _, c := range mp.Conds {
		if fails(c.Body) {
			culprit = c.Body
			break
		}
	}
	if culprit == nil {
		return "policy-level (scope/annotations/layout) [" + rendering + "]", "policy `" + text + "` is not parsed to the tree it was printed from"
	}
	for {
		moved := false
		for _, a := range culprit.Args {
			if fails(a) {
				culprit, moved = a, true
				break
			}
		}
		if !moved {
			break
		}
	}
	var kids []string
	for _, a := range culprit.Args {
		k := opName(a)
		if a.Op == model.OLit {
			k = "lit:" + feature(a.V)
		}
		kids = append(kids, k)
	}
	root := opName(culprit)
	if culprit.Op == model.OLit {
		root = "lit:" + feature(culprit.V)
	}
	return fmt.Sprintf("%s(%s) [%s]", root, strings.Join(kids, ","), strings.SplitN(rendering, "+", 2)[0]), "`" + pr.Expr(culprit) + "` is not parsed to the tree the grammar prescribes"
}

func C07(c *mon.Ctx) {
	c.Rule = "case = (policy AST, rendering). The harness prints the AST with its own grammar-driven printer (fully parenthesised / minimal parentheses from the documented precedence and associativity / minimal + random whitespace, // comments, trailing commas, identifier-vs-string spellings) and cedar-go's parser must return exactly that AST (structural comparison incl. literals, patterns, annotation order, scope forms). " +
		"Enumerated: every node kind as parent x every node kind as child x every operand position x 8 atoms (about 5k trees) x 3 renderings, hand-written precedence/negative-literal/escape cases with their prescribed trees, every string class in every string position, all scope forms; random policies on top. A reject list (chained relations, reserved words, unknown identifiers, duplicate keys/annotations, unknown/misused extension functions, unterminated literals, out-of-range integers, bad escapes, malformed scopes) must produce an error; each of the ten reserved words is tried in each of 20 identifier positions (and must be accepted as an annotation key). Large flat inputs: 1200 repetitions of 18 small templates as policies of one document / policy set / decoder stream, as set elements, record values, operands of one && chain and when-clauses of one policy must each parse to the tree the template has on its own. " +
		"distinct_nontrivial = distinct rendered texts whose condition tree has >= 3 nodes."
	c.Assume = []string{"the printer emits only texts whose grammar-prescribed tree is beyond dispute (DESIGN.md section 10): no mixed or >4 unary chains without parentheses, extension functions in their documented call style, reserved words never as identifiers",
		"datetime literals below cedar-go's recorded lower parsing bound are irrelevant here (constructor arguments are just strings)"}
	c.Floor = 2000
	ctors := c07ctors()
	atoms := c07atoms()
	// exhaustive parent x child x position
	type tri struct{ p, ch, pos, atom int }
	var tris []tri
	for pi, pc := range ctors {
		for ci := range ctors {
			for pos := 0; pos < pc.arity; pos++ {
				for ai := range atoms {
					tris = append(tris, tri{pi, ci, pos, ai})
				}
			}
		}
	}
	c.Extra["parent_child_position_triples"] = len(tris) / len(atoms)
	renderings := []string{"full", "minimal", "minimal+noise"}
	checkAll := func(w *mon.W, mp *model.Policy, nodes int) {
		for ri, rn := range renderings {
			pr := &render.Printer{}
			switch ri {
			case 0:
				pr.Mode = render.Full
			case 2:
				pr.R, pr.Noise, pr.Sugar = w.RandSub("layout"), true, true
			}
			text := pr.Policy(mp)
			if nodes >= 3 {
				w.NonTrivial(text)
			}
			if !c07compare(w, mp, text, rn) {
				return
			}
		}
	}
	c.ParFor("triples", len(tris), func(w *mon.W, i int) {
		t := tris[i]
		pc, cc := ctors[t.p], ctors[t.ch]
		atom := atoms[t.atom]
		other := atoms[(t.atom+3)%len(atoms)]
		chArgs := make([]*model.Expr, cc.arity)
		for k := range chArgs {
			chArgs[k] = atom
			if k > 0 {
				chArgs[k] = other
			}
		}
		child := cc.mk(chArgs)
		pArgs := make([]*model.Expr, pc.arity)
		for k := range pArgs {
			pArgs[k] = other
		}
		pArgs[t.pos] = child
		e := pc.mk(pArgs)
		mp := &model.Policy{Permit: i%2 == 0, Conds: []model.Cond{{When: i%3 != 0, Body: e}}}
		w.Count("parent " + pc.name)
		checkAll(w, mp, e.Size())
		if i%2500 == 0 {
			w.Sample("triple", render.CanonPolicy(mp))
		}
	})
	// hand-written cases
	fixed := c07fixed()
	c.ParFor("fixed", len(fixed), func(w *mon.W, i int) {
		f := fixed[i]
		if f.want == nil {
			return
		}
		mp := &model.Policy{Permit: true, Conds: []model.Cond{{When: true, Body: f.want}}}
		text := "permit(principal, action, resource) when { " + f.text + " };"
		w.NonTrivial(text)
		w.Count("hand-written precedence / literal case")
		p, err, pan := parseOne(text)
		w.Evals(1)
		if pan != "" || err != nil {
			w.Violation("grammatical text rejected: hand-written `"+f.text+"`", fmt.Sprintf("`%s` is rejected: %v %s", f.text, err, pan), map[string]any{"text": text, "expected_tree": bridge.SExpr(f.want)})
			return
		}
		got, cerr := bridge.FromPolicy(p)
		if cerr != nil || bridge.SPolicy(got) != bridge.SPolicy(mp) {
			gs := ""
			if got != nil {
				gs = bridge.SPolicy(got)
			}
			w.Violation("wrong tree: hand-written `"+f.text+"`", fmt.Sprintf("`%s` parses to %s, the grammar prescribes %s", f.text, gs, bridge.SPolicy(mp)), map[string]any{"text": text})
		}
	})
	// strings in every position
	strs := gen.Strings
	c.ParFor("strings", len(strs)*len(strs), func(w *mon.W, i int) {
		s, s2 := strs[i%len(strs)], strs[i/len(strs)]
		e := model.Bin(model.OAnd,
			model.Bin(model.OEq, model.Lit(model.Str(s)), model.Access(model.Var("context"), s2)),
			model.Bin(model.OOr, model.Like(model.Lit(model.Ent("U", s)), gen.NormPattern([]model.PatElem{{Lit: s2}, {Wild: true}, {Lit: s}})),
				model.Has(model.RecE([]string{s}, []*model.Expr{model.Lit(model.Long(1))}), s2)))
		mp := &model.Policy{Permit: true, Annots: []model.Annot{{Key: "a", Val: s}, {Key: "b", Val: s2}},
			P: model.Scope{Kind: model.ScEq, Ent: model.Ent("U", s)}, Conds: []model.Cond{{When: true, Body: e}}}
		w.Count("string-class pair")
		checkAll(w, mp, e.Size())
	})
	// scope forms
	ents := []model.Val{model.Ent("U", "a"), model.Ent("A::B", "x y"), model.Ent("T", "")}
	var scopes []model.Scope
	scopes = append(scopes, model.Scope{Kind: model.ScAll})
	for _, e := range ents {
		scopes = append(scopes, model.Scope{Kind: model.ScEq, Ent: e}, model.Scope{Kind: model.ScIn, Ent: e}, model.Scope{Kind: model.ScIs, Type: e.T}, model.Scope{Kind: model.ScIsIn, Type: e.T, Ent: e})
	}
	ascopes := []model.Scope{{Kind: model.ScAll}, {Kind: model.ScInSet}, {Kind: model.ScInSet, Ents: ents[:1]}, {Kind: model.ScInSet, Ents: ents}}
	for _, e := range ents {
		ascopes = append(ascopes, model.Scope{Kind: model.ScEq, Ent: e}, model.Scope{Kind: model.ScIn, Ent: e})
	}
	c.ParFor("scopes", len(scopes)*len(ascopes)*len(scopes), func(w *mon.W, i int) {
		p := scopes[i%len(scopes)]
		a := ascopes[(i/len(scopes))%len(ascopes)]
		r := scopes[i/(len(scopes)*len(ascopes))]
		mp := &model.Policy{Permit: i%2 == 0, P: p, A: a, R: r}
		w.Count("scope form combination")
		checkAll(w, mp, 3)
	})
	c.SetExhaustive(true)
	// random policies
	c.ParFor("random", c.N(30000, 500000), func(w *mon.W, i int) {
		r := w.Rand()
		mp := gen.RandPolicy(r, gen.ExprCfg{PIll: 0.1, PrimLits: true, WellFormedExt: true}, 5)
		n := 0
		for _, cd := range mp.Conds {
			n += cd.Body.Size()
			cd.Body.Walk(func(e *model.Expr) { w.Count("random: node " + opName(e)) })
		}
		checkAll(w, mp, n)
		if i%5000 == 0 {
			w.Sample("random", (&render.Printer{R: w.RandSub("sample"), Noise: true, Sugar: true}).Policy(mp))
		}
	})
	// reject list
	c.ParFor("reject-expr", len(c07reject), func(w *mon.W, i int) {
		rj := c07reject[i]
		for _, wrap := range []string{"permit(principal, action, resource) when { %s };", "forbid(principal, action, resource) unless { (%s) == 1 };", "permit(principal, action, resource) when { [%s].isEmpty() };"} {
			if rj.expr == "" && strings.Contains(wrap, "[%s]") {
				continue
			}
			text := fmt.Sprintf(wrap, rj.expr)
			_, err, pan := parseOne(text)
			w.Evals(1)
			w.Count("reject: " + rj.cat)
			if pan != "" {
				w.Violation("parser panics", "UnmarshalCedar panicked: "+pan, map[string]any{"text": text})
			} else if err == nil {
				w.Violation("text outside the grammar accepted: "+rj.cat+" `"+rj.expr+"`", fmt.Sprintf("`%s` (%s) is accepted", text, rj.cat), map[string]any{"text": text})
			}
		}
	})
	c07reserved(c)
	c07bulk(c)
	c.ParFor("reject-policy", len(c07rejectPolicies), func(w *mon.W, i int) {
		rj := c07rejectPolicies[i]
		_, err, pan := parseOne(rj.text)
		w.Evals(1)
		w.Count("reject: " + rj.cat)
		if pan != "" {
			w.Violation("parser panics", "UnmarshalCedar panicked: "+pan, map[string]any{"text": rj.text})
		} else if err == nil {
			w.Violation("text outside the grammar accepted: "+rj.cat+" `"+rj.text+"`", fmt.Sprintf("`%s` (%s) is accepted", rj.text, rj.cat), map[string]any{"text": rj.text})
		}
	})
}
