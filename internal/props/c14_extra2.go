package props

import (
	"bytes"
	"context"
	"crypto/sha256"
	"encoding/json"
	"fmt"
	"os"
	"os/exec"
	"sort"
	"strings"
	"time"

	cedar "github.com/cedar-policy/cedar-go"
	"github.com/cedar-policy/cedar-go/types"
	"github.com/cedar-policy/cedar-go/x/exp/batch"
	"github.com/cedar-policy/cedar-go/x/exp/schema"

	"verif/internal/bridge"
	"verif/internal/gen"
	"verif/internal/model"
	"verif/internal/mon"
	"verif/internal/render"
)

// Three further C14 streams:
//   - batch-mixed-placeholders: a context record holding a variable AND an ignored value, used
//     by policies as a whole and by projection; the same batch call repeated must give one
//     result set (which placeholder a walk over the record meets first is map order).
//   - set-history: the same policy objects put into PolicySets along different histories
//     (shuffled Add order, encodings taken between the Adds, Remove + re-Add); all histories
//     that end in the same contents must encode to the same bytes, every time.
//   - cross-process: a fixed corpus of values, entities, policies, policy sets, schemas and
//     authorization results is encoded in this process and in freshly started child
//     processes; "always byte-identical" includes the next process (per-process hash seeds).
func init() {
	orig := Registry["C14"]
	Registry["C14"] = func(c *mon.Ctx) {
		orig(c)
		c.Rule += " Stream batch-mixed-placeholders: 6 context records holding a variable and an ignored value x 10 policy bodies using the record as a whole or by projection x permit/forbid, 64 identical batch calls each. " +
			"Stream set-history: the same policy objects under the same ids put into 6 PolicySets along different histories (shuffled Add order, MarshalCedar/MarshalJSON between the Adds, temporary Add+Remove, Remove+re-Add); all must encode to the same bytes. " +
			"Stream encoder-write-failures: one cedar.Encoder used for 2-6 policies while the io.Writer fails at 1-3 injected calls (retrying or moving on); every Encode hands the writer exactly what a fresh encoder writes for that policy. " +
			"Stream interleaved-encoders: the encoders and other read-only calls of one Schema / Policy / PolicySet / value in 14 random interleavings; each encoder's output never changes. " +
			"Stream cross-process: a fixed corpus (values, uid sets, entity maps, policies, policy sets, authorization results, decoded documents, schemas) is encoded here and in 3 freshly started child processes (the last one with a non-UTC process-local time zone); the digests must agree line by line."
		c14mixedPlaceholders(c)
		c14setHistory(c)
		c14encoderFaults(c)
		c14interleaved(c)
		c14crossProcess(c)
	}
	ChildModes["C14-digest"] = c14digestChild
}

func c14mixedPlaceholders(c *mon.Ctx) {
	rec := func(kv ...any) types.Record {
		m := types.RecordMap{}
		for i := 0; i < len(kv); i += 2 {
			m[types.String(kv[i].(string))] = kv[i+1].(types.Value)
		}
		return types.NewRecord(m)
	}
	x, y := batch.Variable("x"), batch.Variable("y")
	contexts := []struct {
		name string
		ctx  types.Record
	}{
		{"{v: ?x, g: ignore}", rec("v", x, "g", batch.Ignore())},
		{"{v: ?x, g: ignore, k: 1}", rec("v", x, "g", batch.Ignore(), "k", types.Long(1))},
		{"{n: {v: ?x, g: ignore}}", rec("n", rec("v", x, "g", batch.Ignore()))},
		{"{v: ?x, w: ?y, g: ignore, h: ignore}", rec("v", x, "w", y, "g", batch.Ignore(), "h", batch.Ignore())},
		{"{s: [?x, ignore]}", rec("s", types.NewSet(x, batch.Ignore()))},
		{"{v: ?x, n: {g: ignore}}", rec("v", x, "n", rec("g", batch.Ignore()))},
	}
	bodies := []string{
		`context == {"v": 1, "g": 2}`, `context != {"v": 1, "g": 2}`, `[context].contains({"v": 1, "g": 2})`, `{"a": context}.a == {"v": 1, "g": 2}`,
		`context has n && context.n == {"v": 1, "g": 2}`, `context has v && context.v == 1 && context.g == 2`, `context has s && context.s.contains(1)`,
		`context has v && [context.v, context.g].contains(1)`, `context has w && [context.v, context.w] == [1, 2]`, `(if context has n then context.n else context) == {"v": 1, "g": 2}`,
	}
	vars := batch.Variables{"x": []types.Value{types.Long(1), types.Long(3)}, "y": []types.Value{types.Long(2), types.String("s")}}
	const R = 64
	c.ParFor("batch-mixed-placeholders", len(contexts)*len(bodies)*2, func(w *mon.W, i int) {
		cx, body, permit := contexts[i%len(contexts)], bodies[(i/len(contexts))%len(bodies)], i/(len(contexts)*len(bodies)) == 0
		eff := "permit"
		if !permit {
			eff = "forbid"
		}
		src := eff + "(principal, action, resource) when { " + body + " };\npermit(principal, action, resource);"
		ps, err := cedar.NewPolicySetFromBytes("m.cedar", []byte(src))
		if err != nil {
			w.Inconclusive("directed policy does not parse: " + err.Error())
			return
		}
		used := batch.Variables{}
		for k, v := range vars {
			if strings.Contains(cx.name, "?"+string(k)) {
				used[k] = v
			}
		}
		req := batch.Request{Principal: types.NewEntityUID("U", "a"), Action: types.NewEntityUID("Action", "view"), Resource: types.NewEntityUID("U", "b"), Context: cx.ctx, Variables: used}
		outs := map[string]int{}
		var order []string
		for k := 0; k < R; k++ {
			var rows []string
			err := batch.Authorize(context.Background(), ps, types.EntityMap{}, req, func(res batch.Result) error {
				var kv []string
				for n, v := range res.Values {
					kv = append(kv, string(n)+"="+v.String())
				}
				sort.Strings(kv)
				rows = append(rows, "{"+strings.Join(kv, ",")+"} -> "+c14DiagString(res.Decision, res.Diagnostic))
				return nil
			})
			sort.Strings(rows)
			o := strings.Join(rows, "\n")
			if err != nil {
				o += "\nreturned error"
			}
			if outs[o] == 0 {
				order = append(order, o)
			}
			outs[o]++
		}
		w.Evals(R)
		w.Count("batch.Authorize with a variable and an ignored value in one context record")
		w.NonTrivial(cx.name + "|" + body + "|" + eff)
		if len(outs) != 1 {
			w.Violation("batch.Authorize: result set varies between identical calls [variable and ignored value in one record]",
				fmt.Sprintf("batch.Authorize with context %s and policy `%s ... when { %s }` gives %d different result sets over %d identical calls: %s", cx.name, eff, body, len(outs), R, c14diff(order[0], order[1])),
				map[string]any{"policies": src, "context": cx.name, "outputs": order})
		}
	})
}

// c14failWriter records what each Encode call hands to the writer and fails the calls listed.
type c14failWriter struct {
	calls  int
	failAt map[int]bool
	cur    *bytes.Buffer
}

func (f *c14failWriter) Write(b []byte) (int, error) {
	f.calls++
	f.cur.Write(b)
	if f.failAt[f.calls-1] {
		return 0, fmt.Errorf("injected write failure")
	}
	return len(b), nil
}

// c14encoderFaults: one cedar.Encoder is used for a sequence of policies while the writer
// fails at chosen calls (fault injection at the io.Writer boundary); the caller carries on
// with the same encoder (retrying the failed policy or moving to the next). What an Encode
// call hands to the writer for policy p is what a fresh encoder writes for p - an encoder's
// past, failed writes included, is not part of its output.
func c14encoderFaults(c *mon.Ctx) {
	c.ParFor("encoder-write-failures", c.N(1500, 20000), func(w *mon.W, i int) {
		r := w.Rand()
		n := 2 + r.Intn(5)
		var pols []*cedar.Policy
		var fresh [][]byte
		for k := 0; k < n; k++ {
			mp := gen.RandPolicy(r, gen.ExprCfg{PIll: 0.05, SafeDT: true, WellFormedExt: true}, 2)
			sanitizePolicy(mp)
			p := NewPolicy(bridge.ToPolicy(mp))
			pols = append(pols, p)
			var fb bytes.Buffer
			if err := cedar.NewEncoder(&fb).Encode(p); err != nil {
				w.Inconclusive("fresh encoder fails on a bytes.Buffer: " + err.Error())
				return
			}
			fresh = append(fresh, fb.Bytes())
		}
		fw := &c14failWriter{failAt: map[int]bool{}, cur: &bytes.Buffer{}}
		for k := 0; k < 1+r.Intn(3); k++ {
			fw.failAt[r.Intn(2*n)] = true
		}
		enc := cedar.NewEncoder(fw)
		retry := r.Bool()
		var hist []string
		for k := 0; k < n; k++ {
			for attempt := 0; attempt < 3; attempt++ {
				fw.cur.Reset()
				err := enc.Encode(pols[k])
				w.Evals(1)
				hist = append(hist, fmt.Sprintf("Encode(p%d)=%v", k, err != nil))
				// a failed call may have stopped early: a prefix is fine; a successful one wrote it all
				if (err == nil && !bytes.Equal(fw.cur.Bytes(), fresh[k])) || (err != nil && !bytes.HasPrefix(fresh[k], fw.cur.Bytes())) {
					kind := "after an earlier write failure"
					if !strings.Contains(strings.Join(hist[:len(hist)-1], " "), "true") {
						kind = "without any earlier failure"
					}
					w.Violation("Encoder.Encode hands the writer other bytes than a fresh encoder does ["+kind+"]",
						fmt.Sprintf("after %s the encoder wrote %q for policy %d, a fresh encoder writes %q", strings.Join(hist, ", "), c14clip(fw.cur.String()), k, c14clip(string(fresh[k]))),
						map[string]any{"history": hist, "written": fw.cur.String(), "fresh": string(fresh[k])})
					return
				}
				if err == nil || !retry {
					break
				}
			}
		}
		w.Count("encoder used across injected write failures")
		if len(fw.failAt) > 0 {
			w.NonTrivial(strings.Join(hist, ","))
		}
	})
}

// c14interleaved: the several encoders (and other read-only operations) of ONE object are
// called in a random interleaving; each encoder's output is the same every time, whatever was
// called on the object in between (an encoder that normalises the object in place changes
// what another encoder prints afterwards).
func c14interleaved(c *mon.Ctx) {
	type op struct {
		name string
		f    func() string
	}
	c.ParFor("interleaved-encoders", c.N(1500, 20000), func(w *mon.W, i int) {
		r := w.Rand()
		var kind string
		var ops []op
		b2s := func(b []byte, err error) string { return string(b) + "|" + fmt.Sprint(err) }
		switch i % 4 {
		case 0:
			kind = "Schema"
			sc := schema.NewSchemaFromAST(c17Gen(r, c17cfg{hostile: 0, depth: 2}))
			ops = []op{{"MarshalCedar", func() string { return b2s(sc.MarshalCedar()) }}, {"MarshalJSON", func() string { return b2s(sc.MarshalJSON()) }},
				{"Resolve", func() string { _, err := sc.Resolve(); return fmt.Sprint(err != nil) }}}
		case 1:
			kind = "Policy"
			mp := gen.RandPolicy(r, gen.ExprCfg{PIll: 0.05, SafeDT: true, WellFormedExt: true}, 3)
			sanitizePolicy(mp)
			// an action list and annotations in non-sorted order
			mp.A = model.Scope{Kind: model.ScInSet, Ents: []model.Val{model.Ent("Action", "z"), model.Ent("Action", "a"), model.Ent("B::Action", "m"), model.Ent("Action", "b")}}
			mp.Annots = []model.Annot{{Key: "z", Val: "1"}, {Key: "a", Val: "2"}, {Key: "m", Val: "3"}}
			p := NewPolicy(bridge.ToPolicy(mp))
			ops = []op{{"MarshalCedar", func() string { return string(p.MarshalCedar()) }}, {"MarshalJSON", func() string { return b2s(p.MarshalJSON()) }},
				{"AST -> NewPolicyFromAST -> MarshalCedar", func() string { return string(cedar.NewPolicyFromAST(p.AST()).MarshalCedar()) }},
				{"Annotations", func() string { return fmt.Sprint(len(p.Annotations()), p.Effect()) }}}
		case 2:
			kind = "PolicySet"
			ps := cedar.NewPolicySet()
			for k := 0; k < 2+r.Intn(4); k++ {
				mp := gen.RandPolicy(r, gen.ExprCfg{PIll: 0.05, SafeDT: true, WellFormedExt: true}, 2)
				sanitizePolicy(mp)
				ps.Add(cedar.PolicyID([]string{"z", "a", "policy10", "policy2", "", "B"}[k]), NewPolicy(bridge.ToPolicy(mp)))
			}
			env := gen.RandEnv(r)
			em, req := bridge.ToEntityMap(env), bridge.ToRequest(env)
			ops = []op{{"MarshalCedar", func() string { return string(ps.MarshalCedar()) }}, {"MarshalJSON", func() string { return b2s(ps.MarshalJSON()) }},
				{"Authorize", func() string { return c14DiagString(cedar.Authorize(ps, em, req)) }},
				{"EntityMap.MarshalJSON", func() string { return b2s(em.MarshalJSON()) }}}
		default:
			kind = "Value"
			v := bridge.ToValue(sanitizeVal(gen.RandValOf(r, []model.Kind{model.KSet, model.KRecord}[r.Intn(2)], 3)))
			ops = []op{{"MarshalCedar", func() string { return string(v.MarshalCedar()) }}, {"MarshalJSON", func() string { return b2s(json.Marshal(v)) }},
				{"String", func() string { return v.String() }}, {"Equal(self)", func() string { return fmt.Sprint(v.Equal(v)) }}}
		}
		first := map[string]string{}
		var hist []string
		for k := 0; k < 14; k++ {
			o := ops[r.Intn(len(ops))]
			out := o.f()
			w.Evals(1)
			if prev, ok := first[o.name]; ok && prev != out {
				w.Violation(kind+"."+o.name+": output changes after other read-only calls on the same object",
					fmt.Sprintf("%s.%s gives a different result after the calls [%s] on the same object: %s", kind, o.name, strings.Join(hist, ", "), c14diff(prev, out)),
					map[string]any{"object": kind, "calls": hist, "before": prev, "after": out})
				return
			} else if !ok {
				first[o.name] = out
			}
			hist = append(hist, o.name)
		}
		w.Count("interleaved encoders of one " + kind)
		w.NonTrivial(kind + "|" + first["MarshalCedar"])
	})
}

func c14clip(s string) string {
	if len(s) > 160 {
		return s[:160] + "…"
	}
	return s
}

func c14setHistory(c *mon.Ctx) {
	const R = 6
	c.ParFor("set-history", c.N(600, 8000), func(w *mon.W, i int) {
		r := w.Rand()
		n := 2 + r.Intn(5)
		ids := []string{"policy10", "policy2", "a", "", "B", "policy1", "é", "z"}
		var pols []*cedar.Policy
		var pid []cedar.PolicyID
		for _, j := range r.Perm(len(ids))[:n] {
			mp := gen.RandPolicy(r, gen.ExprCfg{PIll: 0.05, SafeDT: true, WellFormedExt: true}, 2)
			sanitizePolicy(mp)
			pols = append(pols, NewPolicy(bridge.ToPolicy(mp)))
			pid = append(pid, cedar.PolicyID(ids[j]))
		}
		extra := NewPolicy(bridge.ToPolicy(&model.Policy{Permit: false}))
		type enc struct{ cedar, json string }
		encode := func(ps *cedar.PolicySet) enc {
			b, err := ps.MarshalJSON()
			return enc{string(ps.MarshalCedar()), string(b) + fmt.Sprint(err)}
		}
		seen := map[enc]string{}
		var first enc
		var hist0 string
		for h := 0; h < R; h++ {
			ps := cedar.NewPolicySet()
			var hist []string
			touch := func() {
				switch r.Intn(4) {
				case 0:
					ps.MarshalCedar()
					hist = append(hist, "MarshalCedar")
				case 1:
					_, _ = ps.MarshalJSON()
					hist = append(hist, "MarshalJSON")
				}
			}
			touch()
			for _, j := range r.Perm(n) {
				ps.Add(pid[j], pols[j])
				hist = append(hist, fmt.Sprintf("Add(%q)", pid[j]))
				touch()
				if r.Intn(4) == 0 {
					ps.Add("c14-temporary", extra)
					touch()
					ps.Remove("c14-temporary")
					hist = append(hist, "Add(temporary)", "Remove(temporary)")
					touch()
				}
				if r.Intn(5) == 0 {
					ps.Remove(pid[j])
					touch()
					ps.Add(pid[j], pols[j])
					hist = append(hist, fmt.Sprintf("Remove(%q)", pid[j]), fmt.Sprintf("Add(%q)", pid[j]))
				}
			}
			e := encode(ps)
			w.Evals(2)
			if e2 := encode(ps); e2 != e {
				w.Violation("PolicySet encoding varies between identical calls [after a history]", "two consecutive encodings of one PolicySet differ after "+strings.Join(hist, ", "), map[string]any{"history": hist})
				return
			}
			if h == 0 {
				first, hist0 = e, strings.Join(hist, ", ")
			}
			seen[e] = strings.Join(hist, ", ")
		}
		w.Count("policy sets with equal contents built along different histories")
		w.NonTrivial(first.cedar)
		if len(seen) != 1 {
			var other string
			var oe enc
			for e, h := range seen {
				if e != first {
					other, oe = h, e
				}
			}
			which := "MarshalCedar"
			if oe.cedar == first.cedar {
				which = "MarshalJSON"
			}
			w.Violation("PolicySet."+which+": sets with the same contents encode differently depending on their history",
				fmt.Sprintf("the same %d policy objects under the same ids encode to different bytes after [%s] and after [%s]", n, hist0, other),
				map[string]any{"history_a": hist0, "history_b": other, "encoding_a": first.cedar, "encoding_b": oe.cedar})
		}
	})
}

// c14corpus renders the fixed corpus: one line per (object, encoder), "kind <tab> sha256".
func c14corpus(seed uint64, n int) []string {
	var out []string
	add := func(kind string, b []byte, err error) {
		s := sha256.Sum256(append(b, []byte(fmt.Sprint(err))...))
		out = append(out, fmt.Sprintf("%s\t%x", kind, s[:8]))
	}
	for i := 0; i < n; i++ {
		r := mon.NewRand(seed*0x9E3779B97F4A7C15 + uint64(i)*0xBF58476D1CE4E5B9 + 14)
		// values: sets of entities / strings / mixed members, records
		for k := 0; k < 3; k++ {
			v := bridge.ToValue(sanitizeVal(gen.RandValOf(r, []model.Kind{model.KSet, model.KRecord, model.KSet}[k], 2)))
			b, err := json.Marshal(v)
			add("value MarshalJSON", b, err)
			add("value MarshalCedar", v.MarshalCedar(), nil)
			add("value String", []byte(v.String()), nil)
		}
		// datetimes print in UTC whatever the process-local zone is
		dtv := types.NewDatetimeFromMillis(int64(r.U64()>>14) - (1 << 48))
		jb, jerr := json.Marshal(dtv)
		add("datetime MarshalJSON", jb, jerr)
		add("datetime String", []byte(dtv.String()), nil)
		add("datetime MarshalCedar", dtv.MarshalCedar(), nil)
		var uids []types.Value
		for k := 0; k < 2+r.Intn(6); k++ {
			uids = append(uids, bridge.ToUID(gen.RandUID(r)))
		}
		us := types.NewSet(uids...)
		b, err := json.Marshal(us)
		add("set of entity uids MarshalJSON", b, err)
		add("set of entity uids MarshalCedar", us.MarshalCedar(), nil)
		// entities, request, authorization
		env := gen.RandEnv(r)
		em := bridge.ToEntityMap(env)
		b, err = em.MarshalJSON()
		add("EntityMap MarshalJSON", b, err)
		var mps []*model.Policy
		ps := cedar.NewPolicySet()
		for k := 0; k < 1+r.Intn(4); k++ {
			mp := gen.RandPolicy(r, gen.ExprCfg{PIll: 0.05, SafeDT: true, WellFormedExt: true}, 3)
			sanitizePolicy(mp)
			mps = append(mps, mp)
			p := NewPolicy(bridge.ToPolicy(mp))
			add("Policy MarshalCedar", p.MarshalCedar(), nil)
			b, err = p.MarshalJSON()
			add("Policy MarshalJSON", b, err)
			ps.Add(cedar.PolicyID(fmt.Sprintf("p%d", k)), p)
		}
		add("PolicySet MarshalCedar", ps.MarshalCedar(), nil)
		b, err = ps.MarshalJSON()
		add("PolicySet MarshalJSON", b, err)
		dec, diag := cedar.Authorize(ps, em, bridge.ToRequest(env))
		add("Authorize decision and diagnostics", []byte(c14DiagString(dec, diag)), nil)
		// decode + re-encode of harness-written documents
		var p2 cedar.Policy
		if p2.UnmarshalJSON(render.PolicyJSON(mps[0])) == nil {
			add("Policy JSON -> MarshalCedar", p2.MarshalCedar(), nil)
		}
		// schemas
		sc := c17Gen(r, c17cfg{hostile: 0, depth: 2})
		s := schema.NewSchemaFromAST(sc)
		b, err = s.MarshalCedar()
		add("Schema MarshalCedar", b, err)
		b, err = s.MarshalJSON()
		add("Schema MarshalJSON", b, err)
	}
	return out
}

func c14digestChild(args []string) int {
	var seed uint64
	var n int
	if len(args) < 2 {
		return 3
	}
	fmt.Sscan(args[0], &seed)
	fmt.Sscan(args[1], &n)
	if len(args) > 2 && args[2] == "localzone" {
		// a process whose local time zone is not UTC (a fixed zone: no tzdata needed)
		time.Local = time.FixedZone("verif+0530", 5*3600+1800)
	}
	w := bytes.Buffer{}
	for _, l := range c14corpus(seed, n) {
		w.WriteString(l)
		w.WriteByte('\n')
	}
	os.Stdout.Write(w.Bytes())
	return 0
}

func c14crossProcess(c *mon.Ctx) {
	n := c.N(150, 1500)
	children := 3
	c.Seq("cross-process", 1, func(w *mon.W, _ int) {
		own := c14corpus(c.Seed, n)
		w.Evals(len(own))
		exe, err := os.Executable()
		if err != nil {
			exe = os.Args[0]
		}
		kinds := map[string]bool{}
		for ch := 0; ch < children; ch++ {
			var out, errb bytes.Buffer
			cargs := []string{"C14-digest", fmt.Sprint(c.Seed), fmt.Sprint(n)}
			if ch == children-1 {
				cargs = append(cargs, "localzone") // the last child runs with a non-UTC local zone
			}
			cmd := exec.Command(exe, cargs...)
			cmd.Stdout, cmd.Stderr = &out, &errb
			if err := cmd.Run(); err != nil {
				w.Inconclusive(fmt.Sprintf("child process %d did not finish: %v %s", ch, err, firstLine(errb.String())))
				return
			}
			lines := strings.Split(strings.TrimRight(out.String(), "\n"), "\n")
			w.Evals(len(lines))
			w.Count("corpus encoded in a fresh child process")
			if len(lines) != len(own) {
				w.Violation("cross-process: a fresh process encodes a different number of objects", fmt.Sprintf("%d lines in this process, %d in child %d", len(own), len(lines), ch), nil)
				return
			}
			for j := range own {
				kind := strings.SplitN(own[j], "\t", 2)[0]
				if own[j] != lines[j] && !kinds[kind] {
					kinds[kind] = true
					w.Violation("cross-process: "+kind+" differs between two processes", fmt.Sprintf("corpus object %d (%s): this process %s, fresh child process %s", j, kind, own[j], lines[j]),
						map[string]any{"corpus_seed": c.Seed, "corpus_objects": n, "line": j})
				}
			}
		}
		for _, l := range own {
			w.NonTrivial(l)
		}
	})
}

func firstLine(s string) string {
	if i := strings.IndexByte(s, '\n'); i >= 0 {
		return s[:i]
	}
	return s
}
