package props

// C16 case generators: three exhaustively enumerated families of small reference graphs
// (entity parents, common types, action groups), an exhaustive operator x operand-position
// x literal-kind table, a fixed list of special cases and random larger schemas.
// Everything here is pure harness code (no cedar-go calls), so the parent can run it.

import (
	"fmt"
	"strings"

	"verif/internal/mon"
)

func c16Q(ns, name string) string {
	if ns == "" {
		return name
	}
	return ns + "::" + name
}

func c16ActionType(ns string) string { return c16Q(ns, "Action") }

// c16HasCycle reports whether the 3-node digraph g (bit 3*i+j: edge i->j) has a cycle
// among the nodes allowed by mask (self loops count).
func c16HasCycle(g int, mask int) bool {
	edge := func(i, j int) bool { return mask>>i&1 == 1 && mask>>j&1 == 1 && g>>(3*i+j)&1 == 1 }
	// reachability closure
	var r [3][3]bool
	for i := 0; i < 3; i++ {
		for j := 0; j < 3; j++ {
			r[i][j] = edge(i, j)
		}
	}
	for k := 0; k < 3; k++ {
		for i := 0; i < 3; i++ {
			for j := 0; j < 3; j++ {
				if r[i][k] && r[k][j] {
					r[i][j] = true
				}
			}
		}
	}
	return r[0][0] || r[1][1] || r[2][2]
}

func c16Ptr[T any](v T) *T { return &v }

// ---------------------------------------------------------------- family 4: literal table

// c16BaseSchema is a well-formed schema against which every operator is exercised.
func c16BaseSchema() c16Schema {
	return c16Schema{NS: []c16NS{{Name: "",
		Entities: []c16Entity{
			{Name: "U", Parents: []string{"G"}, HasShape: true, Tags: c16Ptr(c16TString()), Shape: []c16Attr{
				c16At("a", c16TLong()), c16At("s", c16TString()), c16Ato("opt", c16TLong()), c16At("e", c16TEnt("U")), c16At("set", c16TSet(c16TLong())),
				c16At("rec", c16TRec(c16At("x", c16TLong()), c16Ato("y", c16TString()))), c16At("ip", c16TExt("ipaddr")), c16At("dec", c16TExt("decimal")),
				c16At("dt", c16TExt("datetime")), c16At("dur", c16TExt("duration")), c16At("b", c16TBool()), c16At("es", c16TSet(c16TEnt("G")))}},
			{Name: "G", HasShape: true, Shape: []c16Attr{c16At("a", c16TLong())}},
			{Name: "B", Parents: []string{"G"}, HasShape: true, Tags: c16Ptr(c16TLong()), Shape: []c16Attr{c16At("a", c16TString()), c16At("owner", c16TEnt("U")), c16Ato("opt", c16TString())}},
			{Name: "D", Parents: []string{"G"}, HasShape: true, Tags: c16Ptr(c16TSet(c16TLong())), Shape: []c16Attr{c16At("owner", c16TEnt("U")), c16At("a", c16TLong())}},
			{Name: "Color", IsEnum: true, Values: []string{"red", "green"}},
		},
		Actions: []c16Action{
			{Name: "view", HasApplies: true, Principals: []string{"U"}, Resources: []string{"D", "U"},
				Context: c16Ptr(c16TRec(c16At("n", c16TLong()), c16At("r", c16TRec(c16At("k", c16TString()))), c16Ato("o", c16TString())))},
			{Name: "edit", Parents: []c16ParentRef{{ID: "view"}}, HasApplies: true, Principals: []string{"U"}, Resources: []string{"D"}, Context: c16Ptr(c16TRec(c16At("n", c16TLong())))},
		}}}}
}

type c16Template struct {
	Name string
	F    func(h c16Expr) c16Expr
}

func c16Templates() []c16Template {
	P, R, C, A := c16EVar("principal"), c16EVar("resource"), c16EVar("context"), c16EVar("action")
	one, str, tr := c16EVal(c16VLong(1)), c16EVal(c16VStr("x")), c16EVal(c16VBool(true))
	u := c16EEnt("U", "u")
	var ts []c16Template
	add := func(n string, f func(h c16Expr) c16Expr) { ts = append(ts, c16Template{n, f}) }
	add("body", func(h c16Expr) c16Expr { return h })
	for _, op := range []string{"not", "neg", "isEmpty"} {
		op := op
		add(op+"(_)", func(h c16Expr) c16Expr { return c16EUn(op, h) })
	}
	good := map[string]c16Expr{"and": tr, "or": tr, "==": one, "!=": one, "<": one, "<=": one, ">": one, ">=": one, "+": one, "-": one, "*": one,
		"in": u, "contains": c16EAcc(P, "set"), "containsAll": c16EAcc(P, "set"), "containsAny": c16EAcc(P, "set"), "hasTag": P, "getTag": P}
	goodR := map[string]c16Expr{"contains": one, "hasTag": str, "getTag": str}
	for _, op := range []string{"and", "or", "==", "!=", "<", "<=", ">", ">=", "+", "-", "*", "in", "contains", "containsAll", "containsAny", "hasTag", "getTag"} {
		op := op
		l := good[op]
		r, ok := goodR[op]
		if !ok {
			r = l
		}
		add(op+"(_,good)", func(h c16Expr) c16Expr { return c16EBin(op, h, r) })
		add(op+"(good,_)", func(h c16Expr) c16Expr { return c16EBin(op, l, h) })
		add(op+"(_,_)", func(h c16Expr) c16Expr { return c16EBin(op, h, h) })
	}
	add("if(_,1,1)", func(h c16Expr) c16Expr { return c16EBin("==", c16EIf(h, one, one), one) })
	add("if(c,_,1)", func(h c16Expr) c16Expr { return c16EBin("==", c16EIf(c16EBin("==", P, R), h, one), one) })
	add("if(c,1,_)", func(h c16Expr) c16Expr { return c16EBin("==", c16EIf(c16EBin("==", P, R), one, h), one) })
	add("if(true,_,_)", func(h c16Expr) c16Expr { return c16EIf(tr, h, h) })
	add("if(c,_,_)", func(h c16Expr) c16Expr { return c16EBin("==", c16EIf(c16EBin("==", P, R), h, h), h) })
	add("like(_)", func(h c16Expr) c16Expr { return c16ELike(h, c16Pat{Wild: true, Lit: "a"}) })
	add("is(_)", func(h c16Expr) c16Expr { return c16EIs(h, "U") })
	add("isIn(_,e)", func(h c16Expr) c16Expr { return c16EIsIn(h, "U", u) })
	add("isIn(p,_)", func(h c16Expr) c16Expr { return c16EIsIn(P, "U", h) })
	add("has(_)", func(h c16Expr) c16Expr { return c16EHas(h, "a") })
	add("access(_)", func(h c16Expr) c16Expr { return c16EBin("==", c16EAcc(h, "a"), one) })
	add("has(_,owner)", func(h c16Expr) c16Expr { return c16EHas(h, "owner") })
	add("access(_,owner)", func(h c16Expr) c16Expr { return c16EBin("==", c16EAcc(h, "owner"), u) })
	add("access(_,opt) unguarded", func(h c16Expr) c16Expr { return c16EBin("==", c16EAcc(h, "opt"), c16EAcc(h, "opt")) })
	add("has(_,opt) && access", func(h c16Expr) c16Expr {
		return c16EBin("and", c16EHas(h, "opt"), c16EBin("==", c16EAcc(h, "opt"), one))
	})
	add("_.owner.getTag", func(h c16Expr) c16Expr { return c16EBin("==", c16EBin("getTag", c16EAcc(h, "owner"), str), str) })
	add("_.hasTag(k) || _.getTag(k)", func(h c16Expr) c16Expr {
		return c16EBin("or", c16EBin("hasTag", h, str), c16EBin("==", c16EBin("getTag", h, str), c16EBin("getTag", h, str)))
	})
	add("_.getTag(k).contains", func(h c16Expr) c16Expr { return c16EBin("contains", c16EBin("getTag", h, str), one) })
	add("record{a:_}", func(h c16Expr) c16Expr { return c16EBin("==", c16ERec("a", h, "b", one), C) })
	add("record{a:_}.a", func(h c16Expr) c16Expr { return c16EBin("==", c16EAcc(c16ERec("a", h), "a"), h) })
	add("set[_]", func(h c16Expr) c16Expr { return c16EBin("contains", c16ESet(h), h) })
	add("set[_,1]", func(h c16Expr) c16Expr { return c16EUn("isEmpty", c16ESet(h, one)) })
	add("set[_,_,p.e]", func(h c16Expr) c16Expr { return c16EBin("containsAll", c16ESet(h, h, c16EAcc(P, "e")), c16ESet(h)) })
	add("and(false,_)", func(h c16Expr) c16Expr { return c16EBin("and", c16EVal(c16VBool(false)), h) })
	add("or(true,_)", func(h c16Expr) c16Expr { return c16EBin("or", tr, h) })
	add("if(false,_,true)", func(h c16Expr) c16Expr { return c16EIf(c16EVal(c16VBool(false)), h, tr) })
	add("action in _", func(h c16Expr) c16Expr { return c16EBin("in", A, h) })
	add("action in [_]", func(h c16Expr) c16Expr { return c16EBin("in", A, c16ESet(h, c16EEnt("Action", "view"))) })
	add("p.getTag(_) guarded", func(h c16Expr) c16Expr {
		return c16EBin("and", c16EBin("hasTag", P, h), c16EBin("==", c16EBin("getTag", P, h), str))
	})
	add("context.r == _", func(h c16Expr) c16Expr { return c16EBin("==", c16EAcc(C, "r"), h) })
	add("p.set == _", func(h c16Expr) c16Expr { return c16EBin("==", c16EAcc(P, "set"), h) })
	add("p.dec == _", func(h c16Expr) c16Expr { return c16EBin("==", c16EAcc(P, "dec"), h) })
	for _, fn := range []string{"ip", "decimal", "datetime", "duration", "isIpv4", "isIpv6", "isLoopback", "isMulticast", "toDate", "toTime", "toDays", "toHours", "toMinutes", "toSeconds", "toMilliseconds"} {
		fn := fn
		add(fn+"(_)", func(h c16Expr) c16Expr { return c16EBin("==", c16EExt(fn, h), c16EExt(fn, h)) })
	}
	for _, fn := range []string{"lessThan", "lessThanOrEqual", "greaterThan", "greaterThanOrEqual", "isInRange", "offset", "durationSince"} {
		fn := fn
		recv := map[string]c16Expr{"isInRange": c16EAcc(P, "ip"), "offset": c16EAcc(P, "dt"), "durationSince": c16EAcc(P, "dt")}[fn]
		if recv.Op == "" {
			recv = c16EAcc(P, "dec")
		}
		add(fn+"(_,good)", func(h c16Expr) c16Expr { return c16EBin("==", c16EExt(fn, h, recv), tr) })
		add(fn+"(good,_)", func(h c16Expr) c16Expr { return c16EBin("==", c16EExt(fn, recv, h), tr) })
		add(fn+"(_)", func(h c16Expr) c16Expr { return c16EBin("==", c16EExt(fn, h), tr) })
		add(fn+"(_,_,_)", func(h c16Expr) c16Expr { return c16EBin("==", c16EExt(fn, h, h, h), tr) })
	}
	add("ext-zero-arity-in-tag-key", func(h c16Expr) c16Expr {
		return c16EBin("==", c16EBin("getTag", P, c16EIf(c16EBin("==", P, R), h, c16EExt("lessThan"))), str)
	})
	add("tag key that is an arbitrary expression", func(h c16Expr) c16Expr {
		return c16EBin("==", c16EBin("getTag", P, c16EIf(c16EBin("==", P, R), c16EVal(c16VStr("k")), c16EAcc(c16ERec("a", h), "a"))), str)
	})
	add("unknown-ext(_)", func(h c16Expr) c16Expr { return c16EBin("==", c16EExt("frobnicate", h), h) })
	return ts
}

// c16Holes are the operands put into every template position: every literal kind as a
// *value* node (what JSON `{"Value": ...}` and ast.Value produce) and the corresponding
// expression forms.
func c16Holes() []struct {
	Name string
	E    c16Expr
} {
	type h = struct {
		Name string
		E    c16Expr
	}
	out := []h{
		{"value:bool", c16EVal(c16VBool(true))},
		{"value:long", c16EVal(c16VLong(7))},
		{"value:string", c16EVal(c16VStr("s"))},
		{"value:entity", c16EEnt("U", "u")},
		{"value:entity(unknown type)", c16EEnt("Nope", "u")},
		{"value:action", c16EEnt("Action", "view")},
		{"value:action(unknown)", c16EEnt("Action", "nope")},
		{"value:enum", c16EEnt("Color", "red")},
		{"value:set", c16EVal(c16VSet(c16VLong(1), c16VLong(2)))},
		{"value:set(empty)", c16EVal(c16VSet())},
		{"value:set(of entity)", c16EVal(c16VSet(c16VEnt("U", "u")))},
		{"value:record", c16EVal(c16VRec("x", c16VLong(1)))},
		{"value:record(empty)", c16EVal(c16VRec())},
		{"value:decimal", c16EVal(c16VExt("decimal", "1.5"))},
		{"value:ip", c16EVal(c16VExt("ip", "10.0.0.1/8"))},
		{"value:datetime", c16EVal(c16VExt("datetime", "2024-01-01T00:00:00Z"))},
		{"value:duration", c16EVal(c16VExt("duration", "1h"))},
		{"expr:set", c16ESet(c16EVal(c16VLong(1)), c16EVal(c16VLong(2)))},
		{"expr:set(empty)", c16ESet()},
		{"expr:record", c16ERec("x", c16EVal(c16VLong(1)))},
		{"expr:decimal()", c16EExt("decimal", c16EVal(c16VStr("1.5")))},
		{"expr:ip(bad literal)", c16EExt("ip", c16EVal(c16VStr("not an ip")))},
		{"expr:datetime(non-literal)", c16EExt("datetime", c16EAcc(c16EVar("principal"), "s"))},
		{"expr:context", c16EVar("context")},
		{"expr:principal.opt", c16EAcc(c16EVar("principal"), "opt")},
		{"expr:principal.rec", c16EAcc(c16EVar("principal"), "rec")},
		{"expr:principal.rec.y", c16EAcc(c16EAcc(c16EVar("principal"), "rec"), "y")},
		{"expr:resource.owner", c16EAcc(c16EVar("resource"), "owner")},
		{"expr:if(p==r) p else r", c16EIf(c16EBin("==", c16EVar("principal"), c16EVar("resource")), c16EVar("principal"), c16EVar("resource"))},
	}
	// operands whose type is a union of entity types that differ in what they declare
	// (tags / no tags / other tag type, attribute present / absent / other type, enum), in
	// both member orders: if-then-else with a non-constant test over entity literals and variables
	lits := []c16Expr{c16EEnt("B", "b"), c16EEnt("Color", "red"), c16EEnt("D", "d"), c16EEnt("G", "g"), c16EEnt("U", "u")}
	names := []string{"B", "Color", "D", "G", "U"}
	P, R, C := c16EVar("principal"), c16EVar("resource"), c16EVar("context")
	test := c16EBin("==", c16EAcc(C, "n"), c16EVal(c16VLong(1)))
	test2 := c16EBin("<", c16EAcc(C, "n"), c16EVal(c16VLong(5)))
	for i := range lits {
		for j := range lits {
			if i != j {
				out = append(out, h{"union:" + names[i] + "|" + names[j], c16EIf(test, lits[i], lits[j])})
			}
		}
	}
	for _, t := range [][3]int{{0, 3, 4}, {3, 2, 1}, {4, 0, 2}, {1, 4, 3}} {
		out = append(out, h{"union:" + names[t[0]] + "|" + names[t[1]] + "|" + names[t[2]], c16EIf(test, lits[t[0]], c16EIf(test2, lits[t[1]], lits[t[2]]))})
	}
	out = append(out,
		h{"union:principal|resource", c16EIf(test, P, R)},
		h{"union:resource|principal", c16EIf(test, R, P)},
		h{"union:principal|G", c16EIf(test, P, lits[3])},
		h{"union:G|resource", c16EIf(test, lits[3], R)},
		h{"union:resource|Color", c16EIf(test, R, lits[1])},
		h{"union:resource.owner|B|G", c16EIf(test, c16EAcc(R, "owner"), c16EIf(test2, lits[0], lits[3]))},
		h{"expr:set of D and G", c16ESet(lits[2], lits[3])},
		h{"expr:set of unions", c16ESet(c16EIf(test, lits[0], lits[3]), P)},
	)
	return out
}

func c16LiteralTableN() int { return len(c16Templates()) }

func c16LiteralTableCase(idx int) c16Case {
	t := c16Templates()[idx]
	cs := c16Case{Stream: "literal-table", Idx: idx, Schema: c16BaseSchema(), Feat: []string{"template " + t.Name}}
	for _, h := range c16Holes() {
		cs.Arts = append(cs.Arts, c16ArtPol(c16PolWhen(t.F(h.E))))
	}
	return cs
}

// ---------------------------------------------------------------- family 5: special cases

func c16SpecialCases() []c16Case {
	var out []c16Case
	add := func(feat string, s c16Schema, arts ...c16Art) {
		out = append(out, c16Case{Stream: "special", Idx: len(out), Schema: s, Arts: arts, Feat: []string{"special: " + feat}})
	}
	P, R, C, A := c16EVar("principal"), c16EVar("resource"), c16EVar("context"), c16EVar("action")
	one := c16EVal(c16VLong(1))
	stdArts := func(s c16Schema) []c16Art {
		return []c16Art{
			c16ArtPol(c16PolWhen(c16EBin("==", P, R))),
			c16ArtPol(c16PolWhen(c16EBin("in", P, R))),
			c16ArtPol(c16PolWhen(c16EBin("==", c16EAcc(C, "n"), one))),
			c16ArtEnt(c16Ent{UID: c16UID{"U", "u"}, Attrs: c16VRec(), Tags: c16VRec()}),
			c16ArtReq(c16Req{P: c16UID{"U", "u"}, A: c16UID{"Action", "view"}, R: c16UID{"U", "v"}, Ctx: c16VRec()}),
		}
	}
	// empty schema
	add("empty schema", c16Schema{}, stdArts(c16Schema{})...)
	add("empty namespace list entry", c16Schema{NS: []c16NS{{Name: ""}}}, stdArts(c16Schema{})...)
	// an entity type called Action whose attribute "" is a record with an optional attribute
	actSchema := c16Schema{NS: []c16NS{{Name: "",
		Entities: []c16Entity{{Name: "Action", HasShape: true, Shape: []c16Attr{c16At("", c16TRec(c16Ato("x", c16TLong()))), c16Ato("o", c16TLong()), c16At("r", c16TRec(c16Ato("x", c16TLong())))}, Tags: c16Ptr(c16TLong())}},
		Actions:  []c16Action{{Name: "view", HasApplies: true, Principals: []string{"Action"}, Resources: []string{"Action"}, Context: c16Ptr(c16TRec(c16At("", c16TRec(c16Ato("x", c16TLong()))), c16Ato("o", c16TLong())))}}}}}
	var accArts []c16Art
	for _, v := range []c16Expr{A, P, R, C} {
		for _, k := range []string{"", "r", "o"} {
			accArts = append(accArts,
				c16ArtPol(c16PolWhen(c16EBin("==", c16EAcc(c16EAcc(v, k), "x"), one))),
				c16ArtPol(c16PolWhen(c16EBin("==", c16EAcc(v, k), one))),
				c16ArtPol(c16PolWhen(c16EBin("and", c16EHas(c16EAcc(v, k), "x"), c16EBin("==", c16EAcc(c16EAcc(v, k), "x"), one)))))
		}
	}
	accArts = append(accArts, c16ArtEnt(c16Ent{UID: c16UID{"Action", "view"}, Attrs: c16VRec(), Tags: c16VRec()}),
		c16ArtEnt(c16Ent{UID: c16UID{"Action", "other"}, Attrs: c16VRec("", c16VRec()), Tags: c16VRec("t", c16VLong(1))}),
		c16ArtReq(c16Req{P: c16UID{"Action", "view"}, A: c16UID{"Action", "view"}, R: c16UID{"Action", "x"}, Ctx: c16VRec("", c16VRec())}))
	add("entity type named Action, attribute named \"\"", actSchema, accArts...)
	// short variable paths through optional attributes of nested records
	add("optional attributes below every variable", c16BaseSchema(),
		c16ArtPol(c16PolWhen(c16EBin("==", c16EAcc(c16EAcc(P, "rec"), "y"), c16EVal(c16VStr("s"))))),
		c16ArtPol(c16PolWhen(c16EBin("==", c16EAcc(C, "o"), c16EVal(c16VStr("s"))))),
		c16ArtPol(c16PolWhen(c16EBin("==", c16EAcc(c16EAcc(R, "owner"), "opt"), one))),
		c16ArtPol(c16PolWhen(c16EBin("==", c16EAcc(A, "opt"), one))),
		c16ArtPol(c16PolWhen(c16EBin("and", c16EHas(c16EAcc(P, "rec"), "y"), c16EBin("==", c16EAcc(c16EAcc(P, "rec"), "y"), c16EVal(c16VStr("s")))))))
	// linear chains of entity types (deep but finite recursion must be fine)
	for _, n := range []int{50, 400} {
		var es []c16Entity
		for i := 0; i < n; i++ {
			e := c16Entity{Name: fmt.Sprintf("T%d", i)}
			if i+1 < n {
				e.Parents = []string{fmt.Sprintf("T%d", i+1)}
			}
			es = append(es, e)
		}
		last := fmt.Sprintf("T%d", n-1)
		s := c16Schema{NS: []c16NS{{Name: "", Entities: es, Actions: []c16Action{{Name: "view", HasApplies: true, Principals: []string{"T0"}, Resources: []string{"T0", last}}}}}}
		add(fmt.Sprintf("acyclic entity chain of length %d", n), s,
			c16ArtPol(c16PolWhen(c16EBin("in", P, c16EEnt(last, "x")))),
			c16ArtPol(c16PolWhen(c16EBin("in", R, c16EEnt("T0", "x")))),
			c16ArtPol(c16PolScope(c16ScIn(c16UID{last, "x"}), c16ScAll(), c16ScAll())))
	}
	// chain of common types, each used twice by the next (2^n inlined leaves)
	for _, n := range []int{4, 10} {
		var cts []c16Common
		cts = append(cts, c16Common{Name: "T0", T: c16TRec(c16At("k", c16TLong()))})
		for i := 1; i <= n; i++ {
			prev := c16TRef(fmt.Sprintf("T%d", i-1))
			cts = append(cts, c16Common{Name: fmt.Sprintf("T%d", i), T: c16TRec(c16At("l", prev), c16At("r", prev))})
		}
		top := fmt.Sprintf("T%d", n)
		s := c16Schema{NS: []c16NS{{Name: "", Commons: cts,
			Entities: []c16Entity{{Name: "U", HasShape: true, Shape: []c16Attr{c16At("t", c16TRef(top))}}},
			Actions:  []c16Action{{Name: "view", HasApplies: true, Principals: []string{"U"}, Resources: []string{"U"}, Context: c16Ptr(c16TRef(top))}}}}}
		e := c16EAcc(P, "t")
		for i := 0; i < n; i++ {
			e = c16EAcc(e, "l")
		}
		add(fmt.Sprintf("doubling common-type chain of length %d", n), s,
			c16ArtPol(c16PolWhen(c16EBin("==", c16EAcc(e, "k"), one))),
			c16ArtPol(c16PolWhen(c16EBin("==", c16EAcc(P, "t"), C))))
	}
	// chain of action groups
	{
		var as []c16Action
		n := 200
		for i := 0; i < n; i++ {
			a := c16Action{Name: fmt.Sprintf("a%d", i), HasApplies: true, Principals: []string{"U"}, Resources: []string{"U"}}
			if i+1 < n {
				a.Parents = []c16ParentRef{{ID: fmt.Sprintf("a%d", i+1)}}
			}
			as = append(as, a)
		}
		s := c16Schema{NS: []c16NS{{Name: "", Entities: []c16Entity{{Name: "U"}}, Actions: as}}}
		add("acyclic action-group chain of length 200", s,
			c16ArtPol(c16PolScope(c16ScAll(), c16ScIn(c16UID{"Action", "a199"}), c16ScAll())),
			c16ArtPol(c16PolWhen(c16EBin("in", A, c16EEnt("Action", "a199")))),
			c16ArtEnt(c16Ent{UID: c16UID{"Action", "a0"}, Attrs: c16VRec(), Tags: c16VRec()}))
	}
	// layered action groups: k levels of two groups, each a member of both groups of the level
	// above (2^k upward paths, 2k+1 actions). Everything that walks the hierarchy must be
	// polynomial in the number of actions, i.e. remember what it has visited.
	for _, k := range []int{6, 48} {
		var as []c16Action
		name := func(l, j int) string { return fmt.Sprintf("g%d_%d", l, j) }
		for l := 0; l < k; l++ {
			for j := 0; j < 2; j++ {
				a := c16Action{Name: name(l, j)}
				if l+1 < k {
					a.Parents = []c16ParentRef{{ID: name(l+1, 0)}, {ID: name(l+1, 1)}}
				}
				as = append(as, a)
			}
		}
		as = append(as, c16Action{Name: "view", HasApplies: true, Principals: []string{"U"}, Resources: []string{"U"}, Parents: []c16ParentRef{{ID: name(0, 0)}, {ID: name(0, 1)}}},
			c16Action{Name: "lonely", HasApplies: true, Principals: []string{"U"}, Resources: []string{"U"}})
		var all []c16UID
		for l := 0; l < k; l++ {
			all = append(all, c16UID{"Action", name(l, 0)}, c16UID{"Action", name(l, 1)})
		}
		s := c16Schema{NS: []c16NS{{Name: "", Entities: []c16Entity{{Name: "U"}}, Actions: as}}}
		add(fmt.Sprintf("layered action groups, %d levels of two", k), s,
			c16ArtPol(c16PolScope(c16ScAll(), c16ScIn(c16UID{"Action", name(k-1, 1)}), c16ScAll())),
			c16ArtPol(c16PolScope(c16ScAll(), c16ScIn(c16UID{"Action", "lonely"}), c16ScAll())),
			c16ArtPol(c16PolWhen(c16EBin("in", A, c16EEnt("Action", "lonely")))),
			c16ArtPol(c16PolWhen(c16EBin("in", A, c16EEnt("Action", name(k-1, 0))))),
			c16ArtEnt(c16Ent{UID: c16UID{"Action", "view"}, Parents: all, Attrs: c16VRec(), Tags: c16VRec()}),
			c16ArtEnt(c16Ent{UID: c16UID{"Action", "view"}, Parents: append(append([]c16UID{}, all...), c16UID{"Action", "lonely"}), Attrs: c16VRec(), Tags: c16VRec()}),
			c16ArtEnt(c16Ent{UID: c16UID{"Action", "view"}, Parents: all[:len(all)-1], Attrs: c16VRec(), Tags: c16VRec()}),
			c16ArtEnt(c16Ent{UID: c16UID{"Action", "lonely"}, Parents: all[:1], Attrs: c16VRec(), Tags: c16VRec()}),
			c16ArtReq(c16Req{P: c16UID{"U", "u"}, A: c16UID{"Action", "view"}, R: c16UID{"U", "v"}, Ctx: c16VRec()}))
	}
	// the same ladder over entity types
	for _, k := range []int{6, 40} {
		var es []c16Entity
		name := func(l, j int) string { return fmt.Sprintf("L%d_%d", l, j) }
		for l := 0; l < k; l++ {
			for j := 0; j < 2; j++ {
				e := c16Entity{Name: name(l, j)}
				if l+1 < k {
					e.Parents = []string{name(l+1, 0), name(l+1, 1)}
				}
				es = append(es, e)
			}
		}
		es = append(es, c16Entity{Name: "U", Parents: []string{name(0, 0), name(0, 1)}}, c16Entity{Name: "Lonely"})
		s := c16Schema{NS: []c16NS{{Name: "", Entities: es, Actions: []c16Action{{Name: "view", HasApplies: true, Principals: []string{"U"}, Resources: []string{"U", "Lonely"}}}}}}
		add(fmt.Sprintf("layered entity types, %d levels of two", k), s,
			c16ArtPol(c16PolWhen(c16EBin("in", P, c16EEnt("Lonely", "x")))),
			c16ArtPol(c16PolWhen(c16EBin("in", P, c16EEnt(name(k-1, 1), "x")))),
			c16ArtPol(c16PolScope(c16ScIn(c16UID{"Lonely", "x"}), c16ScAll(), c16ScAll())),
			c16ArtPol(c16PolScope(c16ScAll(), c16ScAll(), c16ScIn(c16UID{name(k-1, 0), "x"}))),
			c16ArtEnt(c16Ent{UID: c16UID{"U", "u"}, Parents: []c16UID{{name(0, 0), "a"}, {name(k-1, 1), "b"}}, Attrs: c16VRec(), Tags: c16VRec()}),
			c16ArtEnt(c16Ent{UID: c16UID{"U", "u"}, Parents: []c16UID{{"Lonely", "a"}}, Attrs: c16VRec(), Tags: c16VRec()}),
			c16ArtReq(c16Req{P: c16UID{"U", "u"}, A: c16UID{"Action", "view"}, R: c16UID{"Lonely", "v"}, Ctx: c16VRec()}))
	}
	// names that collide with built-ins / reserved namespace
	add("declarations named like built-ins, __cedar namespace", c16Schema{NS: []c16NS{
		{Name: "", Commons: []c16Common{{Name: "Long", T: c16TString()}, {Name: "T", T: c16TRef("__cedar::Long")}, {Name: "W", T: c16TRef("__cedar::Nope")}},
			Entities: []c16Entity{{Name: "String", HasShape: true, Shape: []c16Attr{c16At("a", c16TRef("Long")), c16At("b", c16TRef("String")), c16At("c", c16TRef("T"))}}},
			Actions:  []c16Action{{Name: "view", HasApplies: true, Principals: []string{"String"}, Resources: []string{"String"}}}},
		{Name: "__cedar", Commons: []c16Common{{Name: "Long", T: c16TRef("Long")}}}}},
		c16ArtPol(c16PolWhen(c16EBin("==", c16EAcc(P, "a"), c16EAcc(P, "b")))))
	add("unknown extension type in schema", c16Schema{NS: []c16NS{{Name: "",
		Entities: []c16Entity{{Name: "U", HasShape: true, Shape: []c16Attr{c16At("x", c16TExt("frob")), c16At("y", c16TSet(c16TExt("")))}, Tags: c16Ptr(c16TExt("frob"))}},
		Actions:  []c16Action{{Name: "view", HasApplies: true, Principals: []string{"U"}, Resources: []string{"U"}, Context: c16Ptr(c16TRec(c16At("x", c16TExt("frob"))))}}}}},
		c16ArtPol(c16PolWhen(c16EBin("==", c16EAcc(P, "x"), c16EAcc(C, "x")))),
		c16ArtPol(c16PolWhen(c16EBin("==", c16EExt("toDate", c16EAcc(P, "x")), c16EAcc(C, "x")))),
		c16ArtEnt(c16Ent{UID: c16UID{"U", "u"}, Attrs: c16VRec("x", c16VExt("decimal", "1.0"), "y", c16VSet(c16VLong(1))), Tags: c16VRec("t", c16VStr("s"))}),
		c16ArtReq(c16Req{P: c16UID{"U", "u"}, A: c16UID{"Action", "view"}, R: c16UID{"U", "v"}, Ctx: c16VRec("x", c16VLong(1))}))
	// names containing "::" or empty names (reachable from JSON schemas, whose keys are free strings)
	add("declaration names with :: and empty names", c16Schema{NS: []c16NS{
		{Name: "", Entities: []c16Entity{{Name: "A::B", Parents: []string{"A::B", ""}}, {Name: "", Parents: []string{"A::B"}}},
			Commons: []c16Common{{Name: "X::Y", T: c16TRef("X::Y")}, {Name: "", T: c16TRef("")}},
			Actions: []c16Action{{Name: "", HasApplies: true, Principals: []string{"", "A::B"}, Resources: []string{""}}}},
		{Name: "A", Entities: []c16Entity{{Name: "B", Parents: []string{"B"}}}}}},
		c16ArtPol(c16PolWhen(c16EBin("in", P, c16EEnt("A::B", "x")))), c16ArtPol(c16PolWhen(c16EBin("in", P, c16EEnt("", "")))))
	// action without appliesTo / with empty lists, and requests for them
	add("actions without appliesTo", c16Schema{NS: []c16NS{{Name: "", Entities: []c16Entity{{Name: "U"}},
		Actions: []c16Action{{Name: "none"}, {Name: "empty", HasApplies: true}, {Name: "noctx", HasApplies: true, Principals: []string{"U"}, Resources: []string{"U"}}}}}},
		c16ArtPol(c16PolScope(c16ScAll(), c16ScEq(c16UID{"Action", "none"}), c16ScAll())),
		c16ArtPol(c16PolScope(c16ScIs("U"), c16ScIn(c16UID{"Action", "empty"}), c16ScAll())),
		c16ArtPol(c16PolWhen(c16EBin("==", C, c16ERec()))),
		c16ArtReq(c16Req{P: c16UID{"U", "u"}, A: c16UID{"Action", "none"}, R: c16UID{"U", "v"}, Ctx: c16VRec()}),
		c16ArtReq(c16Req{P: c16UID{"U", "u"}, A: c16UID{"Action", "empty"}, R: c16UID{"U", "v"}, Ctx: c16VRec()}),
		c16ArtReq(c16Req{P: c16UID{"U", "u"}, A: c16UID{"Action", "noctx"}, R: c16UID{"U", "v"}, Ctx: c16VRec("a", c16VSet(c16VRec("b", c16VExt("ip", "::1"))))}),
		c16ArtEnt(c16Ent{UID: c16UID{"Action", "none"}, Attrs: c16VRec(), Tags: c16VRec()}))
	// non-record context, entity/enum duplicates, enum parents
	add("context that is not a record; enum as parent and as principal", c16Schema{NS: []c16NS{{Name: "",
		Entities: []c16Entity{{Name: "E", IsEnum: true, Values: []string{"a"}}, {Name: "Z", IsEnum: true}, {Name: "U", Parents: []string{"E", "Z"}}},
		Actions: []c16Action{{Name: "bad", HasApplies: true, Principals: []string{"U"}, Resources: []string{"U"}, Context: c16Ptr(c16TLong())},
			{Name: "ok", HasApplies: true, Principals: []string{"E", "Z"}, Resources: []string{"U", "E"}}}}}},
		c16ArtPol(c16PolWhen(c16EBin("in", P, c16EEnt("E", "a")))))
	add("enum principal", c16Schema{NS: []c16NS{{Name: "",
		Entities: []c16Entity{{Name: "E", IsEnum: true, Values: []string{"a"}}, {Name: "Z", IsEnum: true}, {Name: "U", Parents: []string{"E", "Z", "U"}}},
		Actions:  []c16Action{{Name: "ok", HasApplies: true, Principals: []string{"E", "Z"}, Resources: []string{"U", "E"}}}}}},
		c16ArtPol(c16PolWhen(c16EBin("in", P, c16EEnt("E", "a")))), c16ArtPol(c16PolWhen(c16EBin("in", R, P))), c16ArtPol(c16PolWhen(c16EBin("==", c16EAcc(P, "x"), one))),
		c16ArtPol(c16PolWhen(c16EBin("hasTag", P, c16EVal(c16VStr("k"))))), c16ArtPol(c16PolWhen(c16EBin("==", c16EBin("getTag", P, c16EVal(c16VStr("k"))), one))),
		c16ArtPol(c16PolWhen(c16EHas(P, "x"))), c16ArtPol(c16PolWhen(c16EIs(P, "E"))), c16ArtPol(c16PolScope(c16ScIsIn("E", c16UID{"U", "x"}), c16ScAll(), c16ScIn(c16UID{"Z", "q"}))),
		c16ArtEnt(c16Ent{UID: c16UID{"E", "a"}, Attrs: c16VRec("x", c16VLong(1)), Tags: c16VRec()}), c16ArtEnt(c16Ent{UID: c16UID{"E", "nope"}, Attrs: c16VRec(), Tags: c16VRec()}),
		c16ArtReq(c16Req{P: c16UID{"E", "a"}, A: c16UID{"Action", "ok"}, R: c16UID{"E", "zz"}, Ctx: c16VRec()}))
	return out
}

// ---------------------------------------------------------------- family 6: random schemas

type c16Rnd struct {
	r        *mon.Rand
	nsNames  []string
	entTypes []string // qualified names of declared entity/enum types
	entBase  []string // unqualified names in use
	actions  []c16UID
	commons  []string // qualified common type names
	declared map[string]bool
	entDef   map[string]c16Entity // qualified name -> definition
	entNS    map[string]string
	comDef   map[string]c16Type
	comNS    map[string]string
	actDef   []c16Action
	actNS    []string
}

var c16EntNames = []string{"A", "B", "C", "D", "T", "Action", "String", "E"}
var c16CommonNames = []string{"T", "U", "V", "W", "A", "Long"}
var c16AttrNames = []string{"a", "b", "n", "s", "e", "set", "rec", "", "if", "has space", "o"}
var c16ActNames = []string{"a", "b", "c", "view", ""}
var c16ExtNames = []string{"ipaddr", "decimal", "datetime", "duration"}

func (g *c16Rnd) pick(xs []string) string { return xs[g.r.Intn(len(xs))] }

func c16Split(q string) (ns, base string) {
	if i := strings.LastIndex(q, "::"); i >= 0 {
		return q[:i], q[i+2:]
	}
	return "", q
}

// refName: a reference, as written inside namespace ns, to one of the declared (fully
// qualified) names in pool; unqualified where that resolves to the same declaration;
// undefined with a small probability.
func (g *c16Rnd) refName(ns string, pool []string, _ []string) string {
	if len(pool) == 0 || g.r.Intn(60) == 0 {
		return g.pick([]string{"Zz", "NS::Zz"})
	}
	q := g.pick(pool)
	qns, base := c16Split(q)
	if g.r.Intn(2) == 0 {
		if qns == ns || (qns == "" && !g.declared[c16Q(ns, base)]) {
			return base
		}
	}
	return q
}

func (g *c16Rnd) typ(ns string, depth int) c16Type {
	x := g.r.Intn(16)
	if depth <= 0 && x >= 9 && x <= 10 {
		x = g.r.Intn(6)
	}
	switch {
	case x < 2:
		return c16TLong()
	case x < 4:
		return c16TString()
	case x == 4:
		return c16TBool()
	case x < 7:
		if g.r.Intn(25) == 0 {
			return c16TExt("frob")
		}
		return c16TExt(g.pick(c16ExtNames))
	case x < 9:
		return c16TEnt(g.refName(ns, g.entTypes, g.entBase))
	case x == 9:
		return c16TSet(g.typ(ns, depth-1))
	case x == 10:
		return c16TRec(g.attrs(ns, depth-1, 3)...)
	case x < 14:
		if len(g.commons) > 0 && g.r.Intn(3) > 0 {
			return c16TRef(g.refName(ns, g.commons, c16CommonNames[:4]))
		}
		return c16TRef(g.refName(ns, g.entTypes, g.entBase))
	case x == 14:
		if g.r.Intn(10) == 0 {
			return c16TRef(g.pick([]string{"__cedar::Zz", "Set", "Record", "Entity", "Extension"}))
		}
		return c16TRef(g.pick([]string{"Long", "String", "Bool", "Boolean", "ipaddr", "decimal", "datetime", "duration", "__cedar::Long", "__cedar::String", "__cedar::ipaddr"}))
	}
	return c16TLong()
}

func (g *c16Rnd) attrs(ns string, depth, max int) []c16Attr {
	n := g.r.Intn(max + 1)
	var out []c16Attr
	seen := map[string]bool{}
	for i := 0; i < n; i++ {
		name := g.pick(c16AttrNames)
		if seen[name] {
			continue
		}
		seen[name] = true
		out = append(out, c16Attr{Name: name, T: g.typ(ns, depth), Opt: g.r.Intn(3) == 0})
	}
	return out
}

func (g *c16Rnd) schema() c16Schema {
	r := g.r
	g.nsNames = []string{""}
	if r.Intn(2) == 0 {
		g.nsNames = append(g.nsNames, "NS")
		if r.Intn(4) == 0 {
			g.nsNames = append(g.nsNames, "NS::Sub")
		}
	}
	if r.Intn(30) == 0 {
		g.nsNames = append(g.nsNames, "__cedar")
	}
	// pass 1: names
	type decl struct{ ents, enums, commons, acts []string }
	decls := map[string]*decl{}
	hostile := r.Intn(8) == 0 // allow name clashes / shadowing
	g.declared = map[string]bool{}
	usedEnt := map[string]bool{}
	usedCommon := map[string]bool{}
	usedAct := map[string]bool{}
	for _, ns := range g.nsNames {
		d := &decl{}
		decls[ns] = d
		ne := 1 + r.Intn(4)
		if ns != "" {
			ne = r.Intn(3)
		}
		local := map[string]bool{}
		for i := 0; i < ne; i++ {
			n := g.pick(c16EntNames[:5])
			if hostile {
				n = g.pick(c16EntNames)
			}
			if local[n] || (!hostile && (usedEnt[n] || usedCommon[n])) {
				continue
			}
			local[n], usedEnt[n] = true, true
			if r.Intn(6) == 0 {
				d.enums = append(d.enums, n)
			} else {
				d.ents = append(d.ents, n)
			}
			g.entTypes = append(g.entTypes, c16Q(ns, n))
			g.entBase = append(g.entBase, n)
			g.declared[c16Q(ns, n)] = true
		}
		nc := r.Intn(4)
		for i := 0; i < nc; i++ {
			n := g.pick(c16CommonNames[:4])
			if hostile {
				n = g.pick(c16CommonNames)
			}
			if local["c:"+n] || (!hostile && (usedEnt[n] || usedCommon[n])) {
				continue
			}
			local["c:"+n], usedCommon[n] = true, true
			d.commons = append(d.commons, n)
			g.commons = append(g.commons, c16Q(ns, n))
			g.declared[c16Q(ns, n)] = true
		}
		na := 1 + r.Intn(3)
		if ns != "" {
			na = r.Intn(3)
		}
		for i := 0; i < na; i++ {
			n := g.pick(c16ActNames[:4])
			if hostile {
				n = g.pick(c16ActNames)
			}
			if local["a:"+n] || (!hostile && usedAct[n]) {
				continue
			}
			local["a:"+n], usedAct[n] = true, true
			d.acts = append(d.acts, n)
			g.actions = append(g.actions, c16UID{c16ActionType(ns), n})
		}
	}
	if len(g.entBase) == 0 {
		decls[""].ents = append(decls[""].ents, "A")
		g.entTypes, g.entBase = append(g.entTypes, "A"), append(g.entBase, "A")
		g.declared["A"] = true
	}
	// pass 2: bodies
	var s c16Schema
	cyc := r.Intn(5) == 0 // allow common-type references to later/self definitions
	for _, ns := range g.nsNames {
		d := decls[ns]
		out := c16NS{Name: ns}
		for _, n := range d.ents {
			e := c16Entity{Name: n}
			for k := r.Intn(3); k > 0; k-- {
				e.Parents = append(e.Parents, g.refName(ns, g.entTypes, g.entBase))
			}
			if r.Intn(5) > 0 {
				e.HasShape = true
				e.Shape = g.attrs(ns, 2, 5)
			}
			if r.Intn(5) < 2 {
				e.Tags = c16Ptr(g.typ(ns, 1))
			}
			out.Entities = append(out.Entities, e)
		}
		for _, n := range d.enums {
			e := c16Entity{Name: n, IsEnum: true}
			for k := r.Intn(3); k > 0; k-- {
				e.Values = append(e.Values, g.pick([]string{"x", "y", ""}))
			}
			out.Entities = append(out.Entities, e)
		}
		for i, n := range d.commons {
			save := g.commons
			if !cyc {
				// only reference common types declared earlier (acyclic by construction)
				var earlier []string
				for _, q := range g.commons {
					if q == c16Q(ns, n) {
						break
					}
					earlier = append(earlier, q)
				}
				g.commons = earlier
				_ = i
			}
			t := g.typ(ns, 2)
			if !cyc && t.K == "Ref" && len(g.commons) == 0 {
				t = c16TRec(g.attrs(ns, 1, 3)...)
			}
			g.commons = save
			out.Commons = append(out.Commons, c16Common{Name: n, T: t})
		}
		for _, n := range d.acts {
			a := c16Action{Name: n}
			for k := r.Intn(3) / 2 * (1 + r.Intn(2)); k > 0; k-- {
				p := g.actions[r.Intn(len(g.actions))]
				if !cyc && p.T+"\x00"+p.ID >= c16ActionType(ns)+"\x00"+n {
					continue // keep the group graph acyclic unless cycles are wanted
				}
				switch x := r.Intn(10); {
				case x == 0:
					a.Parents = append(a.Parents, c16ParentRef{ID: "zz"})
				case x < 5 && p.T == c16ActionType(ns):
					a.Parents = append(a.Parents, c16ParentRef{ID: p.ID})
				default:
					a.Parents = append(a.Parents, c16ParentRef{Type: p.T, ID: p.ID})
				}
			}
			if r.Intn(10) > 0 {
				a.HasApplies = true
				for k := r.Intn(4); k > 0; k-- {
					a.Principals = append(a.Principals, g.refName(ns, g.entTypes, g.entBase))
				}
				for k := r.Intn(4); k > 0; k-- {
					a.Resources = append(a.Resources, g.refName(ns, g.entTypes, g.entBase))
				}
				switch x := r.Intn(20); {
				case x < 6:
				case x < 17:
					a.Context = c16Ptr(c16TRec(g.attrs(ns, 2, 4)...))
				case x == 18 && len(g.commons) > 0:
					a.Context = c16Ptr(c16TRef(g.refName(ns, g.commons, nil)))
				case x == 19:
					a.Context = c16Ptr(g.typ(ns, 1))
				}
			}
			out.Actions = append(out.Actions, a)
		}
		s.NS = append(s.NS, out)
	}
	g.index(s)
	return s
}

func (g *c16Rnd) index(s c16Schema) {
	g.entDef, g.entNS, g.comDef, g.comNS = map[string]c16Entity{}, map[string]string{}, map[string]c16Type{}, map[string]string{}
	for _, ns := range s.NS {
		for _, e := range ns.Entities {
			g.entDef[c16Q(ns.Name, e.Name)], g.entNS[c16Q(ns.Name, e.Name)] = e, ns.Name
		}
		for _, c := range ns.Commons {
			g.comDef[c16Q(ns.Name, c.Name)], g.comNS[c16Q(ns.Name, c.Name)] = c.T, ns.Name
		}
		for _, a := range ns.Actions {
			g.actDef, g.actNS = append(g.actDef, a), append(g.actNS, ns.Name)
		}
	}
}

// resolveEnt mimics the documented lookup order for an entity type reference written in ns.
func (g *c16Rnd) resolveEnt(ns, name string) string {
	if strings.Contains(name, "::") {
		return name
	}
	if _, ok := g.entDef[c16Q(ns, name)]; ok {
		return c16Q(ns, name)
	}
	return name
}

var c16ExtKind = map[string]string{"ipaddr": "ip", "decimal": "decimal", "datetime": "datetime", "duration": "duration"}

// valFor builds a value that is meant to conform to schema type t as written in namespace ns
// (with a small probability of a deliberate mismatch), so that the validators go deep.
func (g *c16Rnd) valFor(ns string, t c16Type, depth int) c16Val {
	if depth > 6 || g.r.Intn(25) == 0 {
		return g.val(1)
	}
	ext := func(name string) c16Val {
		if k, ok := c16ExtKind[name]; ok {
			return c16VExt(k, c16ExtLits[k][g.r.Intn(len(c16ExtLits[k])-1)])
		}
		return g.val(0)
	}
	switch t.K {
	case "String":
		return c16VStr(g.pick([]string{"", "a", "x y"}))
	case "Long":
		return c16VLong(int64(g.r.Intn(7)) - 3)
	case "Bool":
		return c16VBool(g.r.Bool())
	case "Ext":
		return ext(t.Name)
	case "Set":
		var es []c16Val
		for k := g.r.Intn(3); k > 0 && t.Elem != nil; k-- {
			es = append(es, g.valFor(ns, *t.Elem, depth+1))
		}
		return c16VSet(es...)
	case "Record":
		v := c16Val{K: "record"}
		for _, a := range t.Attrs {
			if a.Opt && g.r.Bool() {
				continue
			}
			v.Keys = append(v.Keys, a.Name)
			v.Elems = append(v.Elems, g.valFor(ns, a.T, depth+1))
		}
		return v
	case "Entity":
		return c16VEnt(g.resolveEnt(ns, t.Name), g.pick([]string{"e", "f", "x"}))
	}
	// Ref: common type, entity type or built-in, in the documented priority order
	name := t.Name
	cands := []string{name}
	if !strings.Contains(name, "::") && ns != "" {
		cands = []string{c16Q(ns, name), name}
	}
	for _, q := range cands {
		if body, ok := g.comDef[q]; ok {
			return g.valFor(g.comNS[q], body, depth+1)
		}
		if _, ok := g.entDef[q]; ok {
			return c16VEnt(q, g.pick([]string{"e", "f", "x"}))
		}
	}
	switch strings.TrimPrefix(name, "__cedar::") {
	case "String":
		return c16VStr("s")
	case "Long":
		return c16VLong(1)
	case "Bool", "Boolean":
		return c16VBool(true)
	}
	return ext(strings.TrimPrefix(name, "__cedar::"))
}

func (g *c16Rnd) asRecord(v c16Val) c16Val {
	for v.K != "record" {
		v = c16VRec(g.pick(c16AttrNames), v)
	}
	return v
}

// conformingEntity: an entity of a declared type built from its declaration.
func (g *c16Rnd) conformingEntity() (c16Ent, bool) {
	var qs []string
	for _, q := range g.entTypes {
		if d, ok := g.entDef[q]; ok && !d.IsEnum {
			qs = append(qs, q)
		}
	}
	if len(qs) == 0 {
		return c16Ent{}, false
	}
	q := g.pick(qs)
	d, ns := g.entDef[q], g.entNS[q]
	e := c16Ent{UID: c16UID{q, g.pick([]string{"e", "f", "x"})}, Tags: c16VRec()}
	for _, p := range d.Parents {
		if g.r.Bool() {
			e.Parents = append(e.Parents, c16UID{g.resolveEnt(ns, p), g.pick([]string{"e", "f"})})
		}
	}
	e.Attrs = g.asRecord(g.valFor(ns, c16TRec(d.Shape...), 0))
	if d.Tags != nil && g.r.Bool() {
		e.Tags = c16VRec("k", g.valFor(ns, *d.Tags, 0), "l", g.valFor(ns, *d.Tags, 0))
	}
	return e, true
}

// conformingRequest: a request built from a declared action's appliesTo.
func (g *c16Rnd) conformingRequest() (c16Req, bool) {
	var idx []int
	for i, a := range g.actDef {
		if a.HasApplies && len(a.Principals) > 0 && len(a.Resources) > 0 {
			idx = append(idx, i)
		}
	}
	if len(idx) == 0 {
		return c16Req{}, false
	}
	i := idx[g.r.Intn(len(idx))]
	a, ns := g.actDef[i], g.actNS[i]
	q := c16Req{P: c16UID{g.resolveEnt(ns, g.pick(a.Principals)), "e"}, A: c16UID{c16ActionType(ns), a.Name},
		R: c16UID{g.resolveEnt(ns, g.pick(a.Resources)), "f"}, Ctx: c16VRec()}
	if a.Context != nil {
		q.Ctx = g.asRecord(g.valFor(ns, *a.Context, 0))
	}
	return q, true
}

func (g *c16Rnd) entType() string {
	if g.r.Intn(12) == 0 || len(g.entTypes) == 0 {
		return g.pick([]string{"Zz", "NS::Zz", "Action", ""})
	}
	return g.pick(g.entTypes)
}

func (g *c16Rnd) uidOf(t string) c16UID { return c16UID{t, g.pick([]string{"e", "f", "x", ""})} }

func (g *c16Rnd) action() c16UID {
	if g.r.Intn(10) == 0 || len(g.actions) == 0 {
		return c16UID{g.pick([]string{"Action", "NS::Action", "Zz"}), g.pick(c16ActNames)}
	}
	return g.actions[g.r.Intn(len(g.actions))]
}

var c16ExtLits = map[string][]string{
	"decimal":  {"1.5", "0.0", "-922337203685477.5808", "1.23456", "abc"},
	"ip":       {"10.0.0.1", "10.0.0.0/8", "::1", "ffff::/16", "300.1.1.1"},
	"datetime": {"2024-01-01", "2024-01-01T00:00:00Z", "1969-12-31T23:59:59.999Z", "2024-13-01"},
	"duration": {"1h", "-1d2h3m4s5ms", "0ms", "1w"},
}

func (g *c16Rnd) val(depth int) c16Val {
	x := g.r.Intn(12)
	if depth <= 0 && (x == 4 || x == 5) {
		x = g.r.Intn(4)
	}
	switch x {
	case 0:
		return c16VBool(g.r.Bool())
	case 1:
		return c16VLong([]int64{0, 1, -1, 7, 9223372036854775807, -9223372036854775808}[g.r.Intn(6)])
	case 2:
		return c16VStr(g.pick([]string{"", "a", "x y", "k", "10.0.0.1", "1.5"}))
	case 3:
		if g.r.Intn(3) == 0 {
			u := g.action()
			return c16VEnt(u.T, u.ID)
		}
		u := g.uidOf(g.entType())
		return c16VEnt(u.T, u.ID)
	case 4:
		n := g.r.Intn(4)
		var es []c16Val
		for i := 0; i < n; i++ {
			es = append(es, g.val(depth-1))
		}
		return c16VSet(es...)
	case 5:
		n := g.r.Intn(4)
		v := c16Val{K: "record"}
		seen := map[string]bool{}
		for i := 0; i < n; i++ {
			k := g.pick(c16AttrNames)
			if seen[k] {
				continue
			}
			seen[k] = true
			v.Keys = append(v.Keys, k)
			v.Elems = append(v.Elems, g.val(depth-1))
		}
		return v
	case 6, 7, 8, 9:
		k := []string{"decimal", "ip", "datetime", "duration"}[x-6]
		lits := c16ExtLits[k]
		return c16VExt(k, lits[g.r.Intn(len(lits)-1)]) // never the malformed last entry: values must parse
	}
	return c16VLong(int64(g.r.Intn(5)))
}

var c16Vars = []string{"principal", "action", "resource", "context"}
var c16Ext1 = []string{"ip", "decimal", "datetime", "duration", "isIpv4", "isIpv6", "isLoopback", "isMulticast", "toDate", "toTime", "toDays", "toHours", "toMinutes", "toSeconds", "toMilliseconds"}
var c16Ext2 = []string{"lessThan", "lessThanOrEqual", "greaterThan", "greaterThanOrEqual", "isInRange", "offset", "durationSince"}
var c16Bin = []string{"and", "or", "==", "!=", "<", "<=", ">", ">=", "+", "-", "*", "in", "contains", "containsAll", "containsAny", "hasTag", "getTag"}

// entityExpr: an expression of entity type (variable, literal of a declared type, attribute path).
func (g *c16Rnd) entityExpr() c16Expr {
	switch g.r.Intn(5) {
	case 0:
		return c16EVar("principal")
	case 1:
		return c16EVar("resource")
	case 2:
		return c16EAcc(c16EVar(g.pick([]string{"principal", "resource"})), g.pick(c16AttrNames))
	case 3:
		u := g.action()
		return c16EEnt(u.T, u.ID)
	}
	u := g.uidOf(g.entType())
	return c16EEnt(u.T, u.ID)
}

// unionExpr: if-then-else with a non-constant test over 2-3 entity-typed branches.
func (g *c16Rnd) unionExpr() c16Expr {
	test := c16EBin("==", c16EVar("principal"), c16EVar("resource"))
	if g.r.Bool() {
		test = c16EHas(c16EVar("context"), g.pick(c16AttrNames))
	}
	e := c16EIf(test, g.entityExpr(), g.entityExpr())
	if g.r.Intn(3) == 0 {
		e = c16EIf(c16EBin("!=", c16EVar("principal"), c16EVar("resource")), e, g.entityExpr())
	}
	return e
}

func (g *c16Rnd) leaf() c16Expr {
	if g.r.Intn(8) == 0 {
		u := g.unionExpr()
		switch g.r.Intn(6) {
		case 0:
			return c16EBin("getTag", u, c16EVal(c16VStr("k")))
		case 1:
			return c16EBin("hasTag", u, c16EVal(c16VStr("k")))
		case 2:
			return c16EAcc(u, g.pick(c16AttrNames))
		case 3:
			return c16EHas(u, g.pick(c16AttrNames))
		}
		return u
	}
	switch x := g.r.Intn(12); {
	case x < 3:
		return c16EVar(g.pick(c16Vars))
	case x < 7:
		e := c16EVar(g.pick(c16Vars))
		for k := 1 + g.r.Intn(2); k > 0; k-- {
			e = c16EAcc(e, g.pick(c16AttrNames))
		}
		return e
	case x < 9:
		return c16EVal(g.val(2))
	case x == 9:
		u := g.uidOf(g.entType())
		return c16EEnt(u.T, u.ID)
	case x == 10:
		u := g.action()
		return c16EEnt(u.T, u.ID)
	}
	k := g.pick([]string{"decimal", "ip", "datetime", "duration"})
	return c16EExt(k, c16EVal(c16VStr(g.pick(c16ExtLits[k]))))
}

func (g *c16Rnd) expr(depth int) c16Expr {
	if depth <= 0 || g.r.Intn(6) == 0 {
		return g.leaf()
	}
	sub := func() c16Expr { return g.expr(depth - 1) }
	switch x := g.r.Intn(40); {
	case x < 14:
		return c16EBin(c16Bin[g.r.Intn(len(c16Bin))], sub(), sub())
	case x < 17:
		return c16EUn(g.pick([]string{"not", "neg", "isEmpty"}), sub())
	case x < 20:
		return c16EIf(sub(), sub(), sub())
	case x < 22:
		// guarded access: has && access of the same path
		v := c16EVar(g.pick(c16Vars))
		a := g.pick(c16AttrNames)
		return c16EBin("and", c16EHas(v, a), c16EBin(g.pick([]string{"==", "<", "in", "contains"}), c16EAcc(v, a), sub()))
	case x < 24:
		return c16EHas(sub(), g.pick(c16AttrNames))
	case x < 27:
		return c16EAcc(sub(), g.pick(c16AttrNames))
	case x < 29:
		return c16EIs(sub(), g.entType())
	case x == 29:
		return c16EIsIn(sub(), g.entType(), sub())
	case x == 30:
		return c16ELike(sub(), c16Pat{Wild: g.r.Bool(), Lit: g.pick([]string{"a", "*", "x y"})}, c16Pat{Wild: true})
	case x < 33:
		n := g.r.Intn(4)
		var es []c16Expr
		for i := 0; i < n; i++ {
			es = append(es, sub())
		}
		return c16ESet(es...)
	case x < 35:
		n := g.r.Intn(3)
		e := c16Expr{Op: "record"}
		seen := map[string]bool{}
		for i := 0; i < n; i++ {
			k := g.pick(c16AttrNames)
			if seen[k] {
				continue
			}
			seen[k] = true
			e.Keys = append(e.Keys, k)
			e.Args = append(e.Args, sub())
		}
		return e
	case x < 37:
		return c16EExt(g.pick(c16Ext1), sub())
	case x < 39:
		return c16EExt(g.pick(c16Ext2), sub(), sub())
	}
	// wrong arity / unknown function
	fn := g.pick(append(append([]string{"frobnicate"}, c16Ext1...), c16Ext2...))
	n := g.r.Intn(4)
	var as []c16Expr
	for i := 0; i < n; i++ {
		as = append(as, sub())
	}
	return c16EExt(fn, as...)
}

func (g *c16Rnd) scopePR() c16Scope {
	switch g.r.Intn(8) {
	case 0:
		return c16ScEq(g.uidOf(g.entType()))
	case 1:
		return c16ScIn(g.uidOf(g.entType()))
	case 2:
		return c16ScIs(g.entType())
	case 3:
		return c16ScIsIn(g.entType(), g.uidOf(g.entType()))
	}
	return c16ScAll()
}

func (g *c16Rnd) policy(depth int) *c16Policy {
	p := &c16Policy{Forbid: g.r.Intn(4) == 0, P: g.scopePR(), R: g.scopePR(), A: c16ScAll()}
	switch g.r.Intn(8) {
	case 0:
		p.A = c16ScEq(g.action())
	case 1:
		p.A = c16ScIn(g.action())
	case 2:
		var us []c16UID
		for k := g.r.Intn(3); k > 0; k-- {
			us = append(us, g.action())
		}
		p.A = c16ScInSet(us...)
	}
	for k := g.r.Intn(3); k >= 0; k-- {
		if k == 0 && len(p.Conds) > 0 {
			break
		}
		p.Conds = append(p.Conds, c16Cond{Unless: g.r.Intn(4) == 0, Body: g.expr(1 + g.r.Intn(depth))})
	}
	return p
}

func (g *c16Rnd) entity() c16Ent {
	if g.r.Intn(10) < 7 {
		if e, ok := g.conformingEntity(); ok {
			return e
		}
	}
	var u c16UID
	if g.r.Intn(5) == 0 {
		u = g.action()
	} else {
		u = g.uidOf(g.entType())
	}
	e := c16Ent{UID: u, Attrs: c16VRec(), Tags: c16VRec()}
	for k := g.r.Intn(3); k > 0; k-- {
		if g.r.Intn(4) == 0 {
			e.Parents = append(e.Parents, g.action())
		} else {
			e.Parents = append(e.Parents, g.uidOf(g.entType()))
		}
	}
	if g.r.Intn(4) > 0 {
		a := g.val(3)
		for a.K != "record" {
			a = c16VRec(g.pick(c16AttrNames), a)
		}
		e.Attrs = a
	}
	if g.r.Intn(3) == 0 {
		e.Tags = c16VRec("k", g.val(2), g.pick(c16AttrNames), g.val(1))
	}
	return e
}

func (g *c16Rnd) request() c16Req {
	if g.r.Intn(10) < 7 {
		if q, ok := g.conformingRequest(); ok {
			return q
		}
	}
	q := c16Req{P: g.uidOf(g.entType()), A: g.action(), R: g.uidOf(g.entType()), Ctx: c16VRec()}
	if g.r.Intn(3) > 0 {
		a := g.val(3)
		for a.K != "record" {
			a = c16VRec(g.pick(c16AttrNames), a)
		}
		q.Ctx = a
	}
	return q
}

func c16RandomCase(r *mon.Rand, idx int, depth int) c16Case {
	g := &c16Rnd{r: r}
	cs := c16Case{Stream: "random", Idx: idx, Schema: g.schema()}
	np := 3 + r.Intn(4)
	for i := 0; i < np; i++ {
		cs.Arts = append(cs.Arts, c16ArtPol(g.policy(depth)))
	}
	var ents []c16Ent
	for i := 0; i < 3; i++ {
		e := g.entity()
		ents = append(ents, e)
		cs.Arts = append(cs.Arts, c16ArtEnt(e))
	}
	cs.Arts = append(cs.Arts, c16ArtEnts(ents...), c16ArtReq(g.request()), c16ArtReq(g.request()))
	return cs
}
