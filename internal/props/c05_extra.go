package props

import (
	"context"
	"fmt"
	"sort"
	"strings"

	cedar "github.com/cedar-policy/cedar-go"
	"github.com/cedar-policy/cedar-go/types"
	"github.com/cedar-policy/cedar-go/x/exp/batch"

	"verif/internal/mon"
)

// Additional C05 stream (directed): variables two container levels down (records and sets
// that are members of a set, used as a whole), and variables bound to NON-entity values where
// an entity is expected (`is T in`, `in`) under `unless` / negation, where "false" and "error"
// give different decisions. Several variables each, so that every one is substituted while
// others are still unbound. Oracle as everywhere in C05: cedar.Authorize on the substituted
// request, per element of the Cartesian product.
func init() {
	orig := Registry["C05"]
	Registry["C05"] = func(c *mon.Ctx) {
		orig(c)
		c.Rule += " Stream directed-nesting: 10 policy bodies x permit/forbid x when/unless over one context template with variables two container levels down and variables bound to non-entity values in entity positions (5 variables, 160 substitutions each; one list is the longest so that the others are bound while it is still open)."
		c05directed(c)
	}
}

func c05subst(v types.Value, asg map[types.String]types.Value) types.Value {
	switch t := v.(type) {
	case types.EntityUID:
		if t.Type == "__cedar::variable" {
			return asg[t.ID]
		}
	case types.Record:
		m := types.RecordMap{}
		for k, x := range t.All() {
			m[k] = c05subst(x, asg)
		}
		return types.NewRecord(m)
	case types.Set:
		var xs []types.Value
		for x := range t.All() {
			xs = append(xs, c05subst(x, asg))
		}
		return types.NewSet(xs...)
	}
	return v
}

func c05directed(c *mon.Ctx) {
	U := func(id string) types.EntityUID { return types.NewEntityUID("U", types.String(id)) }
	G := types.NewEntityUID("G", "g")
	rec := func(kv ...any) types.Record {
		m := types.RecordMap{}
		for i := 0; i < len(kv); i += 2 {
			m[types.String(kv[i].(string))] = kv[i+1].(types.Value)
		}
		return types.NewRecord(m)
	}
	V := batch.Variable
	tctx := rec(
		"members", types.NewSet(rec("id", V("m")), rec("id", U("z"))),
		"sets", types.NewSet(types.NewSet(V("m"), U("b")), types.NewSet(U("z"))),
		"deep", rec("list", types.NewSet(rec("inner", rec("id", V("m"))))),
		"who", V("w"), "grp", V("g"), "flag", V("f"), "other", V("o"))
	vars := batch.Variables{
		"m": {U("a"), U("b")},
		"w": {types.Long(5), types.String("s"), U("a"), G},
		"g": {G, types.Long(1)},
		"f": {types.True, types.False},
		// the longest list: batch binds shorter lists first, so every other variable is
		// substituted while this one is still unbound (partial evaluation sees the values)
		"o": {types.Long(1), types.Long(2), types.Long(3), types.Long(4), types.Long(5)},
	}
	ents := types.EntityMap{
		U("a"): types.Entity{UID: U("a"), Parents: types.NewEntityUIDSet(G)},
		U("b"): types.Entity{UID: U("b")},
		G:      types.Entity{UID: G},
	}
	bodies := []string{
		`context.members.contains({"id": U::"a"})`,
		`context.members.containsAny([{"id": U::"a"}, {"id": U::"q"}])`,
		`context.sets.contains([U::"a", U::"b"])`,
		`context.deep.list.contains({"inner": {"id": U::"a"}})`,
		`context.members == [{"id": U::"a"}, {"id": U::"z"}]`,
		`context.who is U in G::"g"`,
		`!(context.who is U in G::"g")`,
		`context.who is U in [G::"g", context.grp]`,
		`context.who in G::"g" || context.other == 1`,
		`(if context.flag then context.who else U::"a") is U in G::"g"`,
	}
	names := []types.String{"f", "g", "m", "o", "w"}
	c.ParFor("directed-nesting", len(bodies)*4, func(w *mon.W, i int) {
		body, permit, when := bodies[i%len(bodies)], (i/len(bodies))%2 == 0, i/(len(bodies)*2) == 0
		eff, kw := "permit", "when"
		if !permit {
			eff = "forbid"
		}
		if !when {
			kw = "unless"
		}
		src := fmt.Sprintf("%s(principal, action, resource) %s { %s };\npermit(principal, action, resource) when { context.other == 1 };", eff, kw, body)
		ps, err := cedar.NewPolicySetFromBytes("d.cedar", []byte(src))
		if err != nil {
			w.Inconclusive("directed policy does not parse: " + err.Error())
			return
		}
		P, A, R := U("a"), types.NewEntityUID("Action", "view"), U("b")
		render := func(dec cedar.Decision, d cedar.Diagnostic) string {
			var rs, es []string
			for _, x := range d.Reasons {
				rs = append(rs, string(x.PolicyID))
			}
			for _, x := range d.Errors {
				es = append(es, string(x.PolicyID))
			}
			sort.Strings(rs)
			sort.Strings(es)
			return fmt.Sprintf("%v reasons=%v erroring=%v", dec, rs, es)
		}
		key := func(vals map[types.String]types.Value) string {
			var ks []string
			for _, n := range names {
				ks = append(ks, string(n)+"="+vals[n].String())
			}
			return strings.Join(ks, ",")
		}
		// brute force
		want := map[string]string{}
		idx := make([]int, len(names))
		for {
			asg := map[types.String]types.Value{}
			for k, n := range names {
				asg[n] = vars[n][idx[k]]
			}
			ctx := c05subst(tctx, asg).(types.Record)
			dec, diag := cedar.Authorize(ps, ents, cedar.Request{Principal: P, Action: A, Resource: R, Context: ctx})
			want[key(asg)] = render(dec, diag)
			k := 0
			for ; k < len(names); k++ {
				idx[k]++
				if idx[k] < len(vars[names[k]]) {
					break
				}
				idx[k] = 0
			}
			if k == len(names) {
				break
			}
		}
		got := map[string][]string{}
		berr := batch.Authorize(context.Background(), ps, ents, batch.Request{Principal: P, Action: A, Resource: R, Context: tctx, Variables: vars}, func(res batch.Result) error {
			vals := map[types.String]types.Value{}
			for n, v := range res.Values {
				vals[n] = v
			}
			got[key(vals)] = append(got[key(vals)], render(res.Decision, res.Diagnostic))
			return nil
		})
		w.Evals(len(want))
		w.Count("directed template: " + kw)
		w.NonTrivial(src)
		wit := map[string]any{"policies": src, "context_template": tctx.String()}
		if berr != nil {
			w.Violation("batch.Authorize returns an error on a valid template [directed nesting]", berr.Error(), wit)
			return
		}
		for k, wv := range want {
			g := got[k]
			switch {
			case len(g) != 1:
				w.Violation("callback count differs from the Cartesian product [directed nesting]", fmt.Sprintf("substitution {%s}: %d callbacks", k, len(g)), wit)
				return
			case g[0] != wv:
				cls := "value two container levels down"
				if strings.Contains(body, "who") {
					cls = "non-entity value in an entity position"
				}
				w.Violation("result differs from cedar.Authorize ["+cls+"; "+kw+"]", fmt.Sprintf("policy `%s ... %s { %s }`, substitution {%s}: batch says %s, cedar.Authorize on the substituted request says %s", eff, kw, body, k, g[0], wv), wit)
				return
			}
		}
		if len(got) != len(want) {
			w.Violation("callback count differs from the Cartesian product [directed nesting]", fmt.Sprintf("%d substitutions expected, %d distinct ones called back", len(want), len(got)), wit)
		}
	})
}
