package props

// C14 - results are deterministic functions of their inputs.
//
// Oracle: the number of distinct outputs observed over R repetitions of the SAME call must be 1
// (every `range` over a Go map inside cedar-go is a fresh random schedule). No reference model
// is needed for the verdict; the reference evaluator is used only to localise and classify a
// failure (which record fields fail, which set members are not entities).

import (
	"context"
	"encoding/json"
	"fmt"
	"math"
	"runtime/debug"
	"sort"
	"strings"

	cedar "github.com/cedar-policy/cedar-go"
	"github.com/cedar-policy/cedar-go/types"
	"github.com/cedar-policy/cedar-go/x/exp/batch"
	"github.com/cedar-policy/cedar-go/x/exp/eval"
	"github.com/cedar-policy/cedar-go/x/exp/schema"

	"verif/internal/bridge"
	"verif/internal/gen"
	"verif/internal/model"
	"verif/internal/mon"
	"verif/internal/render"
)

func init() { Registry["C14"] = C14 }

// c14Out collects the distinct outputs of repeated executions.
type c14Out struct {
	counts map[string]int
	order  []string
}

func c14Safe(f func() string) (s string) {
	defer func() {
		if r := recover(); r != nil {
			s = "PANIC@" + mon.PanicSite(debug.Stack()) + ": " + fmt.Sprint(r)
		}
	}()
	return f()
}

func c14Repeat(n int, f func(rep int) string) *c14Out {
	o := &c14Out{counts: map[string]int{}}
	for i := 0; i < n; i++ {
		rep := i
		s := c14Safe(func() string { return f(rep) })
		if _, ok := o.counts[s]; !ok {
			o.order = append(o.order, s)
		}
		o.counts[s]++
	}
	return o
}

func (o *c14Out) N() int { return len(o.order) }

// c14Varies is c14Repeat that stops as soon as two different outputs were seen (used while
// localising, where only "does it vary" matters).
func c14Varies(n int, f func(rep int) string) bool {
	first := ""
	for i := 0; i < n; i++ {
		rep := i
		s := c14Safe(func() string { return f(rep) })
		if i == 0 {
			first = s
		} else if s != first {
			return true
		}
	}
	return false
}

func (o *c14Out) Witness() []map[string]any {
	var out []map[string]any
	for _, s := range o.order {
		t := s
		if len(t) > 4000 {
			t = t[:4000] + "…"
		}
		out = append(out, map[string]any{"output": t, "times": o.counts[s]})
	}
	return out
}

// c14diff renders where two outputs first differ (for one-line descriptions).
func c14diff(a, b string) string {
	i := 0
	for i < len(a) && i < len(b) && a[i] == b[i] {
		i++
	}
	lo := i - 30
	if lo < 0 {
		lo = 0
	}
	cut := func(s string) string {
		hi := i + 50
		if hi > len(s) {
			hi = len(s)
		}
		return s[lo:hi]
	}
	return fmt.Sprintf("…%q vs …%q", cut(a), cut(b))
}

func c14DiagString(dec cedar.Decision, d cedar.Diagnostic) string {
	var reasons, errs []string
	for _, r := range d.Reasons {
		reasons = append(reasons, string(r.PolicyID))
	}
	for _, e := range d.Errors {
		errs = append(errs, string(e.PolicyID)+": "+e.Message)
	}
	sort.Strings(reasons)
	sort.Strings(errs)
	return fmt.Sprintf("decision=%s reasons=%q errors=%q", dec, reasons, errs)
}

type c14cfgT struct {
	R    int // repetitions per observed call
	Rb   int // repetitions of batch.Authorize
	Rloc int // repetitions used while localising a failure (only runs after a violation was seen)
}

// ---------------------------------------------------------------------------------------
// stream "authorize"

type c14authCase struct {
	form  string
	pols  []*model.Policy
	ids   []string
	texts []string // per policy: Cedar text (form text) or JSON (form json); empty for ast
	env   *model.Env
}

// compile builds fresh cedar policies from the case's source form.
func (ac *c14authCase) compile() ([]*cedar.Policy, error) {
	out := make([]*cedar.Policy, len(ac.pols))
	for i, mp := range ac.pols {
		switch ac.form {
		case "text":
			var p cedar.Policy
			if err := p.UnmarshalCedar([]byte(ac.texts[i])); err != nil {
				return nil, err
			}
			out[i] = &p
		case "json":
			var p cedar.Policy
			if err := p.UnmarshalJSON([]byte(ac.texts[i])); err != nil {
				return nil, err
			}
			out[i] = &p
		default:
			out[i] = NewPolicy(bridge.ToPolicy(mp))
		}
	}
	return out, nil
}

func c14shuffledEntities(base types.EntityMap, r *mon.Rand) types.EntityMap {
	uids := make([]types.EntityUID, 0, len(base))
	for u := range base {
		uids = append(uids, u)
	}
	sort.Slice(uids, func(i, j int) bool {
		if uids[i].Type != uids[j].Type {
			return uids[i].Type < uids[j].Type
		}
		return uids[i].ID < uids[j].ID
	})
	out := types.EntityMap{}
	for _, i := range r.Perm(len(uids)) {
		out[uids[i]] = base[uids[i]]
	}
	return out
}

// c14exprVaries evaluates e R times with the real evaluator and reports the distinct
// outcomes (boolean results and error messages; other values only as "value").
func c14exprVaries(e *model.Expr, cenv eval.Env, R int) *c14Out {
	return c14Repeat(R, c14exprOutcome(e, cenv))
}

func c14exprOutcome(e *model.Expr, cenv eval.Env) func(int) string {
	node := bridge.ToNode(e)
	return func(int) string {
		v, err := eval.Eval(node, cenv)
		if err != nil {
			return "error: " + err.Error()
		}
		if b, ok := v.(types.Boolean); ok {
			return fmt.Sprintf("value: %v", bool(b))
		}
		return "value"
	}
}

// c14localiseExpr descends to the smallest sub-term whose outcome varies and classifies it.
func c14localiseExpr(e *model.Expr, env *model.Env, cenv eval.Env, R int) (class string, min *model.Expr, out *c14Out) {
	if !c14Varies(R, c14exprOutcome(e, cenv)) {
		return "", nil, nil
	}
	cur := e
	for {
		moved := false
		for _, ch := range cur.Args {
			if c14Varies(R, c14exprOutcome(ch, cenv)) {
				cur, moved = ch, true
				break
			}
		}
		if !moved {
			break
		}
	}
	out = c14exprVaries(cur, cenv, R)
	if out.N() < 2 {
		return "", nil, out
	}
	switch cur.Op {
	case model.ORecord:
		n, _ := c14failingFields(cur, env)
		if n >= 2 {
			// shrink to the failing fields only
			var ks []string
			var as []*model.Expr
			for i, a := range cur.Args {
				if _, err := model.Eval(a, env); err != model.ENone {
					ks = append(ks, cur.Keys[i])
					as = append(as, a)
				}
			}
			for len(ks) > 2 {
				cand := model.RecE(ks[:len(ks)-1], as[:len(as)-1])
				if c14Varies(R, c14exprOutcome(cand, cenv)) {
					ks, as = ks[:len(ks)-1], as[:len(as)-1]
					continue
				}
				break
			}
			small := model.RecE(ks, as)
			if o := c14exprVaries(small, cenv, R); o.N() >= 2 {
				return "record literal with >=2 failing fields", small, o
			}
			return "record literal with >=2 failing fields", cur, out
		}
		return "record literal with <2 failing fields", cur, out
	case model.OIn, model.OIsIn:
		rhs := cur.Args[1]
		if v, err := model.Eval(rhs, env); err == model.ENone && v.K == model.KSet {
			ne := 0
			for _, x := range v.Elems {
				if x.K != model.KEntity {
					ne++
				}
			}
			if ne >= 2 {
				return "in: set operand with >=2 non-entity members", cur, out
			}
		}
		return "op=" + opName(cur), cur, out
	}
	return "op=" + opName(cur), cur, out
}

// c14localiseAuth finds the policy and sub-term responsible for a varying authorization.
func c14localiseAuth(w *mon.W, ac *c14authCase, env *model.Env, cfg c14cfgT, api string, full *c14Out) {
	ents := bridge.ToEntityMap(env)
	req := bridge.ToRequest(env)
	cenv := bridge.ToEvalEnv(env, ents)
	pols, err := ac.compile()
	baseWit := func() map[string]any {
		srcs := make([]string, len(ac.pols))
		for i, p := range ac.pols {
			srcs[i] = ac.ids[i] + ": " + render.CanonPolicy(p)
		}
		return map[string]any{"api": api, "form": ac.form, "policies": srcs, "request": envWitness(env), "distinct_outputs": full.Witness()}
	}
	found := false
	if err == nil {
		for i, mp := range ac.pols {
			one := cedar.NewPolicySet()
			one.Add(cedar.PolicyID(ac.ids[i]), pols[i])
			if !c14Varies(cfg.Rloc, func(int) string { return c14DiagString(cedar.Authorize(one, ents, req)) }) {
				continue
			}
			solo := c14Repeat(cfg.Rloc, func(int) string { return c14DiagString(cedar.Authorize(one, ents, req)) })
			found = true
			cands := []*model.Expr{model.ScopeExpr("principal", mp.P), model.ScopeExpr("action", mp.A), model.ScopeExpr("resource", mp.R)}
			for _, c := range mp.Conds {
				cands = append(cands, c.Body)
			}
			localised := false
			for _, e := range cands {
				class, min, out := c14localiseExpr(e, env, cenv, cfg.Rloc)
				if class == "" {
					continue
				}
				localised = true
				wit := baseWit()
				wit["policy"] = render.CanonPolicy(mp)
				wit["minimal_subterm"] = render.Canon(min)
				wit["subterm_outcomes"] = out.Witness()
				kind := "error-message-varies"
				if !strings.HasPrefix(out.order[0], "error") || !strings.HasPrefix(out.order[1], "error") {
					kind = "outcome-varies"
				}
				w.Violation("authorize:"+kind+"("+class+")",
					fmt.Sprintf("evaluating `%s` %d times gives %d different outcomes: %s | %s", render.Canon(min), cfg.Rloc, out.N(), out.order[0], out.order[1]), wit)
				break
			}
			if !localised {
				wit := baseWit()
				wit["policy"] = render.CanonPolicy(mp)
				wit["solo_outputs"] = solo.Witness()
				w.Violation("authorize:result-varies(single policy, unlocalised)",
					fmt.Sprintf("authorizing the same request against `%s` %d times gives %d different results: %s", render.CanonPolicy(mp), cfg.Rloc, solo.N(), c14diff(solo.order[0], solo.order[1])), wit)
			}
		}
	}
	if !found {
		// stable for one compiled policy object: does it differ between fresh compilations of the same source?
		for i, mp := range ac.pols {
			seen := map[string]bool{}
			for k := 0; k < 4; k++ {
				ps, err := ac.compile()
				if err != nil {
					break
				}
				one := cedar.NewPolicySet()
				one.Add(cedar.PolicyID(ac.ids[i]), ps[i])
				seen[c14Safe(func() string { return c14DiagString(cedar.Authorize(one, ents, req)) })] = true
			}
			if len(seen) >= 2 {
				found = true
				wit := baseWit()
				wit["policy"] = render.CanonPolicy(mp)
				wit["outputs_of_fresh_compilations"] = sortedKeys(seen)
				w.Violation("authorize:result-varies(across fresh compilations of the same policy source)",
					fmt.Sprintf("compiling `%s` afresh (%s) and authorizing the same request gives %d different results: %s", render.CanonPolicy(mp), ac.form, len(seen), c14diff(sortedKeys(seen)[0], sortedKeys(seen)[1])), wit)
				break
			}
		}
	}
	if !found {
		w.Violation("authorize:result-varies(only with the whole policy set)",
			fmt.Sprintf("%s: the same request against the same %d policies gives %d different results over %d repetitions: %s", api, len(ac.pols), full.N(), cfg.R, c14diff(full.order[0], full.order[1])), baseWit())
	}
}

const c14varType = "__cedar::variable"

// c14batchReq is a batch request in model form: parts may be variables / ignore.
type c14batchReq struct {
	variant  string
	p, a, r  types.Value
	ctx      types.Value
	vars     batch.Variables
	mvars    map[string][]model.Val // model form of the variable values
	slot     map[string]string      // variable -> "principal" | "resource" | "context.<key>"
	twice    bool                   // one variable occurs in >= 2 fields of one record
	extraPol []*model.Policy
}

func c14mkBatch(r *mon.Rand, env *model.Env, directedTwice bool) *c14batchReq {
	b := &c14batchReq{vars: batch.Variables{}, mvars: map[string][]model.Val{}, slot: map[string]string{}}
	b.p, b.a, b.r = bridge.ToUID(env.P), bridge.ToUID(env.A), bridge.ToUID(env.R)
	b.ctx = bridge.ToRecord(env.Ctx)
	altEnt := func(not model.Val) model.Val {
		for k := 0; k < 8; k++ {
			u := gen.RandUID(r)
			if !u.Equal(not) {
				return u
			}
		}
		return model.Ent("U", "c14alt")
	}
	setVar := func(name string, vals []model.Val, slot string) {
		tv := make([]types.Value, len(vals))
		for i, v := range vals {
			tv[i] = bridge.ToValue(v)
		}
		b.vars[types.String(name)] = tv
		b.mvars[name] = vals
		b.slot[name] = slot
	}
	ctxWith := func(kv map[string]types.Value) types.Value {
		m := types.RecordMap{}
		for i, k := range env.Ctx.Keys {
			m[types.String(k)] = bridge.ToValue(env.Ctx.Vals[i])
		}
		for k, v := range kv {
			m[types.String(k)] = v
		}
		return types.NewRecord(m)
	}
	v := r.Intn(5)
	if directedTwice {
		v = 5
	}
	switch v {
	case 0:
		b.variant = "no variables"
	case 1:
		b.variant = "principal variable"
		b.p = batch.Variable("p")
		setVar("p", []model.Val{env.P, altEnt(env.P)}, "principal")
	case 2:
		b.variant = "principal+resource variables"
		b.p, b.r = batch.Variable("p"), batch.Variable("r")
		setVar("p", []model.Val{env.P, altEnt(env.P)}, "principal")
		setVar("r", []model.Val{env.R, altEnt(env.R)}, "resource")
	case 3:
		b.variant = "context ignored + principal variable"
		b.ctx = batch.Ignore()
		b.p = batch.Variable("p")
		setVar("p", []model.Val{env.P, altEnt(env.P)}, "principal")
	case 4:
		b.variant = "variable in one context field"
		b.ctx = ctxWith(map[string]types.Value{"c14v": batch.Variable("x")})
		vals := []model.Val{model.Long(1), model.Str("a")}
		setVar("x", vals, "context.c14v")
		b.extraPol = append(b.extraPol, c14ctxPolicy("c14v", vals[0]))
	case 5:
		b.variant = "variable in two context fields"
		b.twice = true
		b.ctx = ctxWith(map[string]types.Value{"c14v": batch.Variable("x"), "c14w": batch.Variable("x")})
		vals := []model.Val{model.Long(1), model.Str("a")}
		setVar("x", vals, "context.c14v+c14w")
		b.extraPol = append(b.extraPol, c14ctxPolicy("c14v", vals[0]), c14ctxPolicy("c14w", vals[0]))
	}
	return b
}

func c14ctxPolicy(key string, v model.Val) *model.Policy {
	return &model.Policy{Permit: true, P: model.Scope{Kind: model.ScAll}, A: model.Scope{Kind: model.ScAll}, R: model.Scope{Kind: model.ScAll},
		Conds: []model.Cond{{When: true, Body: model.Bin(model.OEq, model.Access(model.Var("context"), key), model.Lit(v))}}}
}

// c14runBatch runs one batch authorization and renders the SET of results keyed by the
// substituted values (callback order is not part of the observation).
func c14runBatch(ps cedar.PolicyIterator, ents types.EntityGetter, b *c14batchReq) string {
	var rows []string
	err := batch.Authorize(context.Background(), ps, ents, batch.Request{Principal: b.p, Action: b.a, Resource: b.r, Context: b.ctx, Variables: b.vars},
		func(res batch.Result) error {
			var kv []string
			for k, v := range res.Values {
				kv = append(kv, string(k)+"="+v.String())
			}
			sort.Strings(kv)
			rows = append(rows, "{"+strings.Join(kv, ",")+"} -> "+c14DiagString(res.Decision, res.Diagnostic))
			return nil
		})
	sort.Strings(rows)
	out := strings.Join(rows, "\n")
	if err != nil {
		out += "\nreturned error (message not compared)"
	}
	return out
}

func c14authStream(c *mon.Ctx, cfg c14cfgT, stream string, n int, directed int) {
	c.ParFor(stream, n, func(w *mon.W, i int) {
		r := w.Rand()
		ac := &c14authCase{form: mon.Pick(r, []string{"text", "text", "ast", "json"})}
		np := 1 + r.Intn(5)
		shapes := map[int]int{}
		for k := 0; k < np; k++ {
			shape := 0
			switch x := r.Intn(10); {
			case x < 4:
				shape = 1
			case x < 5:
				shape = 2
			case x < 6:
				shape = 3
			case x < 7:
				shape = 4
			}
			if directed >= 0 {
				shape = 0
			}
			shapes[shape]++
			ac.pols = append(ac.pols, c14Policy(r, shape))
		}
		// environment biased to what the policies mention
		ment := &gen.Mentions{}
		for _, p := range ac.pols {
			gen.CollectPolicy(ment, p)
		}
		var env *model.Env
		if r.P(0.7) {
			env = gen.EnvFor(r, ment, false)
		} else {
			env = gen.RandEnv(r)
		}
		if r.P(0.05) {
			env.P = model.Ent("", "") // the zero-value entity
		}
		if r.P(0.03) {
			env.R = model.Ent("", "")
		}
		breq := c14mkBatch(w.RandSub("batch"), env, directed == 5)
		ac.pols = append(ac.pols, breq.extraPol...)
		idPerm := r.Perm(len(ac.pols))
		for k := range ac.pols {
			ac.ids = append(ac.ids, fmt.Sprintf("p%d", idPerm[k]))
		}
		pr := &render.Printer{R: w.RandSub("print"), Sugar: true}
		jr := w.RandSub("json")
		for _, p := range ac.pols {
			switch ac.form {
			case "text":
				ac.texts = append(ac.texts, pr.Policy(p))
			case "json":
				ac.texts = append(ac.texts, c14PolicyJSON(p, jr))
			default:
				ac.texts = append(ac.texts, "")
			}
		}
		// K fresh compilations, each inserted in its own order into a PolicySet / PolicyMap
		const K = 4
		psets := make([]*cedar.PolicySet, K)
		pmaps := make([]cedar.PolicyMap, K)
		base := bridge.ToEntityMap(env)
		emaps := make([]types.EntityMap, K)
		sh := w.RandSub("shuffle")
		for k := 0; k < K; k++ {
			pols, err := ac.compile()
			if err != nil {
				w.Count("authorize: skipped, source rejected by the decoder (form " + ac.form + ")")
				return
			}
			psets[k] = cedar.NewPolicySet()
			pmaps[k] = cedar.PolicyMap{}
			for _, j := range sh.Perm(len(pols)) {
				psets[k].Add(cedar.PolicyID(ac.ids[j]), pols[j])
				pmaps[k][cedar.PolicyID(ac.ids[j])] = pols[j]
			}
			emaps[k] = c14shuffledEntities(base, sh)
		}
		req := bridge.ToRequest(env)
		out := c14Repeat(cfg.R, func(rep int) string {
			k := rep % K
			switch (rep / K) % 3 {
			case 0:
				return c14DiagString(cedar.Authorize(psets[k], emaps[(k+rep/K)%K], req))
			case 1:
				return c14DiagString(psets[k].IsAuthorized(emaps[(k+rep/K)%K], req))
			}
			return c14DiagString(cedar.Authorize(pmaps[k], emaps[(k+rep/K)%K], req))
		})
		w.Evals(cfg.R)
		w.Count(fmt.Sprintf("authorize: distinct outputs over %d repetitions = %d", cfg.R, out.N()))
		w.Count("authorize: form " + ac.form)
		// what the case exercises
		mapEntries := 0
		if len(ac.pols) >= 2 {
			mapEntries++
			w.Count("authorize: policy set with >=2 policies (insertion orders shuffled)")
		}
		if len(base) >= 2 {
			mapEntries++
			w.Count("authorize: entity map with >=2 entities (insertion orders shuffled)")
		}
		nFailRec, nRec2 := 0, 0
		for _, p := range ac.pols {
			for _, cd := range p.Conds {
				cd.Body.Walk(func(x *model.Expr) {
					if x.Op == model.ORecord && len(x.Args) >= 2 {
						nRec2++
						if nf, kinds := c14failingFields(x, env); nf >= 2 {
							nFailRec++
							if len(kinds) >= 2 {
								w.Count("authorize: record literal with >=2 failing fields of different error kinds (per reference evaluator)")
							} else {
								w.Count("authorize: record literal with >=2 failing fields of one error kind")
							}
						}
					}
				})
			}
		}
		if nRec2 > 0 {
			mapEntries++
			w.Count("authorize: case with a record literal of >=2 fields")
		}
		if shapes[2] > 0 {
			w.Count("authorize: case with `in` over a set holding >=2 non-entities")
		}
		if shapes[4] > 0 {
			w.Count("authorize: case with a wrong-typed receiver and a failing argument")
		}
		if strings.Contains(out.order[0], "errors=[\"") {
			w.Count("authorize: outcome has >=1 erroring policy")
		}
		if strings.HasPrefix(out.order[0], "PANIC") {
			w.Count("authorize: deterministic panic observed (not this property's concern): " + strings.SplitN(out.order[0], ":", 2)[0])
		}
		key := ac.form + "|" + strings.Join(ac.texts, "\n") + "|" + env.P.Key() + env.Ctx.Key()
		if ac.form == "ast" {
			key = "ast|"
			for _, p := range ac.pols {
				key += render.CanonPolicy(p) + "\n"
			}
			key += env.P.Key() + env.Ctx.Key()
		}
		if mapEntries > 0 {
			w.NonTrivial(key)
			w.Count("cases with >=2 map entries on the exercised path")
		}
		plainVaried := out.N() >= 2
		if plainVaried {
			c14localiseAuth(w, ac, env, cfg, "cedar.Authorize/PolicySet.IsAuthorized/Authorize(PolicyMap) over shuffled insertion orders", out)
		}
		// batch.Authorize on the same policies
		bout := c14Repeat(cfg.Rb, func(rep int) string {
			k := rep % K
			return c14runBatch(psets[k], emaps[(k+1)%K], breq)
		})
		w.Evals(cfg.Rb)
		w.Count(fmt.Sprintf("batch: distinct outputs over %d repetitions = %d", cfg.Rb, bout.N()))
		w.Count("batch: " + breq.variant)
		if strings.HasPrefix(bout.order[0], "PANIC") {
			w.Count("batch: deterministic panic observed (not this property's concern): " + strings.SplitN(bout.order[0], ":", 2)[0])
		}
		if strings.Contains(bout.order[0], "returned error") {
			w.Count("batch: call returned an error")
		}
		if bout.N() >= 2 && !plainVaried {
			c14localiseBatch(w, ac, env, breq, cfg, bout)
		}
		if i%(n/3+1) == 1 {
			w.Sample(stream, map[string]any{"form": ac.form, "policies": ac.texts, "request": envWitness(env), "output": out.order[0], "batch_variant": breq.variant, "batch_output": bout.order[0]})
		}
	})
}

func c14localiseBatch(w *mon.W, ac *c14authCase, env *model.Env, b *c14batchReq, cfg c14cfgT, bout *c14Out) {
	srcs := make([]string, len(ac.pols))
	for i, p := range ac.pols {
		srcs[i] = ac.ids[i] + ": " + render.CanonPolicy(p)
	}
	vars := map[string][]string{}
	for k, vs := range b.mvars {
		for _, v := range vs {
			vars[k] = append(vars[k], v.String())
		}
	}
	wit := map[string]any{"api": "batch.Authorize", "form": ac.form, "policies": srcs, "request": envWitness(env), "batch_variant": b.variant,
		"variables": vars, "variable_slots": b.slot, "distinct_outputs": bout.Witness()}
	if b.twice {
		w.Violation("batch:result-varies(variable occurs in >=2 fields of one record)",
			fmt.Sprintf("batch.Authorize with one variable in two context fields gives %d different result sets over %d repetitions: %s", bout.N(), cfg.Rb, c14diff(bout.order[0], bout.order[1])), wit)
		return
	}
	// try every substitution as a plain authorization: the evaluator is shared
	names := sortedKeys(b.mvars)
	var rec func(k int, e2 model.Env) bool
	rec = func(k int, e2 model.Env) bool {
		if k == len(names) {
			ents := bridge.ToEntityMap(&e2)
			pols, err := ac.compile()
			if err != nil {
				return false
			}
			ps := cedar.NewPolicySet()
			for i := range pols {
				ps.Add(cedar.PolicyID(ac.ids[i]), pols[i])
			}
			req := bridge.ToRequest(&e2)
			o := c14Repeat(cfg.Rloc, func(int) string { return c14DiagString(cedar.Authorize(ps, ents, req)) })
			if o.N() >= 2 {
				c14localiseAuth(w, ac, &e2, cfg, "batch.Authorize (reproduced with cedar.Authorize on one substitution)", o)
				return true
			}
			return false
		}
		for _, v := range b.mvars[names[k]] {
			e3 := e2
			switch slot := b.slot[names[k]]; {
			case slot == "principal":
				e3.P = v
			case slot == "resource":
				e3.R = v
			case strings.HasPrefix(slot, "context."):
				ks := append(append([]string{}, e2.Ctx.Keys...), strings.TrimPrefix(slot, "context."))
				vs := append(append([]model.Val{}, e2.Ctx.Vals...), v)
				e3.Ctx = model.Record(ks, vs)
			}
			if rec(k+1, e3) {
				return true
			}
		}
		return false
	}
	if rec(0, *env) {
		return
	}
	// >= 2 variables with equally long value lists: batch.Authorize orders the variables by
	// len(values) only, ties follow map iteration. Confirm by breaking the tie.
	if len(names) >= 2 {
		tie := true
		for _, nm := range names {
			if len(b.mvars[nm]) != len(b.mvars[names[0]]) {
				tie = false
			}
		}
		if tie {
			b2 := *b
			b2.vars = batch.Variables{}
			for k, vs := range b.vars {
				b2.vars[k] = vs
			}
			// repeat the first value of the i-th variable i more times: all lengths differ and
			// no new substitution is introduced (rows are merely duplicated)
			for i, nm := range names {
				vs := append([]types.Value{}, b.vars[types.String(nm)]...)
				for x := 0; x < i; x++ {
					vs = append(vs, vs[0])
				}
				b2.vars[types.String(nm)] = vs
			}
			pols, err := ac.compile()
			if err == nil {
				ps := cedar.NewPolicySet()
				for i := range pols {
					ps.Add(cedar.PolicyID(ac.ids[i]), pols[i])
				}
				ents := bridge.ToEntityMap(env)
				stillVaries := c14Varies(cfg.Rloc, func(int) string { return c14runBatch(ps, ents, &b2) })
				again := c14Varies(cfg.Rloc, func(int) string { return c14runBatch(ps, ents, b) })
				if again && !stillVaries {
					wit["tie_broken_by_unequal_value_counts"] = "stable"
					// minimal witness: a single policy that varies on its own
					for i := range pols {
						one := cedar.NewPolicySet()
						one.Add(cedar.PolicyID(ac.ids[i]), pols[i])
						if c14Varies(cfg.Rloc, func(int) string { return c14runBatch(one, ents, b) }) {
							wit["minimal_policy"] = ac.ids[i] + ": " + render.CanonPolicy(ac.pols[i])
							wit["minimal_policy_outputs"] = c14Repeat(cfg.Rloc, func(int) string { return c14runBatch(one, ents, b) }).Witness()
							break
						}
					}
					w.Violation("batch:result-varies(>=2 variables with equally many values: binding order follows map iteration)",
						fmt.Sprintf("batch.Authorize (%s) gives %d different result sets over %d repetitions of the same call, and is stable once the variables have different numbers of values: %s", b.variant, bout.N(), cfg.Rb, c14diff(bout.order[0], bout.order[1])), wit)
					return
				}
			}
		}
	}
	w.Violation("batch:result-varies(unlocalised)",
		fmt.Sprintf("batch.Authorize (%s) gives %d different result sets over %d repetitions of the same call: %s", b.variant, bout.N(), cfg.Rb, c14diff(bout.order[0], bout.order[1])), wit)
}

// ---------------------------------------------------------------------------------------
// stream "marshal": the same object marshalled repeatedly

// c14check reports a violation if the outputs differ.
func c14check(w *mon.W, cfg c14cfgT, sig, what string, input any, f func(rep int) string) *c14Out {
	out := c14Repeat(cfg.R, f)
	w.Evals(cfg.R)
	w.Count(fmt.Sprintf("%s: distinct outputs = %d", strings.SplitN(sig, ":bytes", 2)[0], out.N()))
	if out.N() >= 2 {
		w.Violation(sig, fmt.Sprintf("%s: %d different outputs over %d repetitions: %s", what, out.N(), cfg.R, c14diff(out.order[0], out.order[1])),
			map[string]any{"input": input, "distinct_outputs": out.Witness()})
	} else if strings.HasPrefix(out.order[0], "PANIC") {
		w.Count("deterministic panic observed (not this property's concern): " + strings.SplitN(out.order[0], ":", 2)[0])
	}
	return out
}

func c14jsonOf(v any) string {
	b, err := json.Marshal(v)
	if err != nil {
		return "error (message not compared)"
	}
	return string(b)
}

// c14biasedVal draws values biased to sets with colliding members and wide records.
func c14biasedVal(r *mon.Rand, depth int) model.Val {
	col := gen.Collide()
	switch r.Intn(6) {
	case 0: // set of colliding members
		n := 2 + r.Intn(5)
		xs := make([]model.Val, n)
		for i := range xs {
			xs[i] = mon.Pick(r, col)
		}
		return model.Set(xs...)
	case 1: // wide record
		n := 2 + r.Intn(7)
		ks := make([]string, n)
		vs := make([]model.Val, n)
		for i := range ks {
			ks[i] = mon.Pick(r, gen.AttrNames)
			if depth > 0 && r.P(0.4) {
				vs[i] = c14biasedVal(r, depth-1)
			} else {
				vs[i] = gen.RandVal(r, 1)
			}
		}
		return model.Record(ks, vs)
	case 2: // set of sets / records of colliding members
		n := 2 + r.Intn(3)
		xs := make([]model.Val, n)
		for i := range xs {
			if depth > 0 {
				xs[i] = c14biasedVal(r, depth-1)
			} else {
				xs[i] = mon.Pick(r, col)
			}
		}
		return model.Set(xs...)
	case 3: // neighbouring longs (probe chains) mixed with colliders
		n := 3 + r.Intn(5)
		xs := make([]model.Val, n)
		for i := range xs {
			if r.Bool() {
				xs[i] = model.Long(int64(r.Intn(6)))
			} else {
				xs[i] = mon.Pick(r, col[:8])
			}
		}
		return model.Set(xs...)
	}
	return gen.RandValOf(r, mon.Pick(r, []model.Kind{model.KSet, model.KRecord}), depth+1)
}

func c14entries(v model.Val) int {
	switch v.K {
	case model.KSet:
		return len(v.Elems)
	case model.KRecord:
		return len(v.Keys)
	}
	return 0
}

// c14safeVal avoids datetimes below cedar-go's (known, recorded) lower parsing bound in
// values that go through a JSON decode.
func c14safeVal(v model.Val) model.Val {
	switch v.K {
	case model.KDatetime:
		if v.I < DatetimeLowBound {
			v.I = DatetimeLowBound
		}
	case model.KSet:
		xs := make([]model.Val, len(v.Elems))
		for i, e := range v.Elems {
			xs[i] = c14safeVal(e)
		}
		return model.Set(xs...)
	case model.KRecord:
		vs := make([]model.Val, len(v.Vals))
		for i, e := range v.Vals {
			vs[i] = c14safeVal(e)
		}
		return model.Record(v.Keys, vs)
	}
	return v
}

func c14bigEnv(r *mon.Rand) *model.Env {
	env := gen.RandEnv(r)
	// entities with many parents / attrs / tags
	extra := r.Intn(4)
	for k := 0; k < extra; k++ {
		u := gen.RandUID(r)
		e := &model.Entity{UID: u}
		np := r.Intn(8)
		for j := 0; j < np; j++ {
			e.Parents = append(e.Parents, model.Ent(mon.Pick(r, gen.EntityTypes), mon.Pick(r, gen.EntityIDs)))
		}
		e.Parents = model.Set(e.Parents...).Elems
		e.Attrs = c14biasedVal(r, 1)
		if e.Attrs.K != model.KRecord {
			e.Attrs = model.Rec("s", e.Attrs, "t", c14biasedVal(r, 0))
		}
		n := r.Intn(6)
		ks := make([]string, n)
		vs := make([]model.Val, n)
		for j := range ks {
			ks[j] = gen.RandString(r)
			vs[j] = c14biasedVal(r, 0)
		}
		e.Tags = model.Record(ks, vs)
		env.Store[u.Key()] = e
	}
	for _, e := range env.Store {
		e.Attrs, e.Tags = c14safeVal(e.Attrs), c14safeVal(e.Tags)
	}
	env.Ctx = c14safeVal(env.Ctx)
	return env
}

func c14marshalStream(c *mon.Ctx, cfg c14cfgT, n int) {
	c.ParFor("marshal", n, func(w *mon.W, i int) {
		r := w.Rand()
		switch i % 5 {
		case 0: // values
			mv := c14biasedVal(r, 2)
			v := bridge.ToValue(mv)
			in := map[string]any{"value": mv.String()}
			c14check(w, cfg, "marshal:Value.MarshalCedar:bytes-vary", "MarshalCedar of one "+mv.K.String()+" value", in, func(int) string { return string(v.MarshalCedar()) })
			c14check(w, cfg, "marshal:Value.MarshalJSON:bytes-vary", "MarshalJSON of one "+mv.K.String()+" value", in, func(int) string { return c14jsonOf(v) })
			c14check(w, cfg, "marshal:Value.String:bytes-vary", "String of one "+mv.K.String()+" value", in, func(int) string { return v.String() })
			w.Count("marshal: value kind " + mv.K.String())
			if c14entries(mv) >= 2 {
				w.NonTrivial("value|" + mv.Key())
				w.Count("cases with >=2 map entries on the exercised path")
			}
			if i%500 == 0 {
				w.Sample("marshal-value", map[string]any{"value": mv.String(), "cedar": string(v.MarshalCedar()), "json": c14jsonOf(v)})
			}
		case 1: // entities, entity maps, requests
			env := c14bigEnv(r)
			base := bridge.ToEntityMap(env)
			in := map[string]any{"entities": envWitness(env)["entities"]}
			c14check(w, cfg, "marshal:EntityMap.MarshalJSON:bytes-vary", "MarshalJSON of one EntityMap", in, func(int) string { return c14jsonOf(base) })
			sh := w.RandSub("shuffle")
			maps := []types.EntityMap{base, c14shuffledEntities(base, sh), c14shuffledEntities(base, sh), base.Clone()}
			c14check(w, cfg, "marshal:EntityMap.MarshalJSON(same entities, shuffled insertion order):bytes-vary", "MarshalJSON of EntityMaps holding the same Entity values inserted in different orders", in,
				func(rep int) string { return c14jsonOf(maps[rep%len(maps)]) })
			for _, me := range env.SortedStore() {
				ent := base[bridge.ToUID(me.UID)]
				c14check(w, cfg, "marshal:Entity.MarshalJSON:bytes-vary", "MarshalJSON of one Entity", map[string]any{"entity": me.UID.String(), "parents": len(me.Parents)}, func(int) string { return c14jsonOf(ent) })
				if len(me.Parents) >= 2 {
					w.Count("marshal: entity with >=2 parents")
				}
				if len(me.Tags.Keys) >= 2 {
					w.Count("marshal: entity with >=2 tags")
				}
			}
			req := bridge.ToRequest(env)
			c14check(w, cfg, "marshal:Request.MarshalJSON:bytes-vary", "json.Marshal of one Request", envWitness(env), func(int) string { return c14jsonOf(req) })
			if len(base) >= 2 {
				w.NonTrivial("entities|" + c14EntitiesJSON(env, nil))
				w.Count("cases with >=2 map entries on the exercised path")
			}
			if i%500 == 1 {
				w.Sample("marshal-entities", map[string]any{"json": c14jsonOf(base)})
			}
		case 2, 3: // policies and policy sets (from AST / text / JSON), marshalled repeatedly
			form := mon.Pick(r, []string{"text", "ast", "json"})
			ac := &c14authCase{form: form}
			np := 1 + r.Intn(5)
			pr := &render.Printer{R: w.RandSub("print"), Sugar: true}
			jr := w.RandSub("json")
			for k := 0; k < np; k++ {
				p := c14Policy(r, []int{0, 1, 3, 3}[r.Intn(4)])
				ac.pols = append(ac.pols, p)
				ac.ids = append(ac.ids, mon.Pick(r, []string{"p", "policy", "z", "A", "é", ""})+fmt.Sprint(k))
				switch form {
				case "text":
					ac.texts = append(ac.texts, pr.Policy(p))
				case "json":
					ac.texts = append(ac.texts, c14PolicyJSON(p, jr))
				default:
					ac.texts = append(ac.texts, render.CanonPolicy(p))
				}
			}
			pols, err := ac.compile()
			if err != nil {
				w.Count("marshal: skipped, policy source rejected by the decoder (form " + form + ")")
				return
			}
			maxAnn, maxRec := 0, 0
			for k, p := range pols {
				in := map[string]any{"form": form, "source": ac.texts[k]}
				c14check(w, cfg, "marshal:Policy.MarshalCedar:bytes-vary", "MarshalCedar of one Policy ("+form+")", in, func(int) string { return string(p.MarshalCedar()) })
				c14check(w, cfg, "marshal:Policy.MarshalJSON:bytes-vary", "MarshalJSON of one Policy ("+form+")", in, func(int) string { return c14jsonOf(p) })
				if len(ac.pols[k].Annots) > maxAnn {
					maxAnn = len(ac.pols[k].Annots)
				}
				for _, cd := range ac.pols[k].Conds {
					cd.Body.Walk(func(x *model.Expr) {
						if x.Op == model.ORecord && len(x.Args) > maxRec {
							maxRec = len(x.Args)
						}
					})
				}
			}
			sh := w.RandSub("shuffle")
			sets := make([]*cedar.PolicySet, 4)
			for k := range sets {
				sets[k] = cedar.NewPolicySet()
				for _, j := range sh.Perm(len(pols)) {
					sets[k].Add(cedar.PolicyID(ac.ids[j]), pols[j])
				}
			}
			in := map[string]any{"form": form, "ids": ac.ids, "sources": ac.texts}
			c14check(w, cfg, "marshal:PolicySet.MarshalCedar:bytes-vary", "MarshalCedar of one PolicySet", in, func(int) string { return string(sets[0].MarshalCedar()) })
			c14check(w, cfg, "marshal:PolicySet.MarshalJSON:bytes-vary", "MarshalJSON of one PolicySet", in, func(int) string { return c14jsonOf(sets[0]) })
			c14check(w, cfg, "marshal:PolicySet.MarshalCedar(same policies, shuffled insertion order):bytes-vary", "MarshalCedar of PolicySets holding the same policies added in different orders", in,
				func(rep int) string { return string(sets[rep%len(sets)].MarshalCedar()) })
			c14check(w, cfg, "marshal:PolicySet.MarshalJSON(same policies, shuffled insertion order):bytes-vary", "MarshalJSON of PolicySets holding the same policies added in different orders", in,
				func(rep int) string { return c14jsonOf(sets[rep%len(sets)]) })
			list := cedar.PolicyList(pols)
			c14check(w, cfg, "marshal:PolicyList.MarshalCedar:bytes-vary", "MarshalCedar of one PolicyList", in, func(int) string { return string(list.MarshalCedar()) })
			w.Count("marshal: policies from " + form)
			if maxAnn >= 2 {
				w.Count("marshal: policy with >=2 annotations")
			}
			if maxRec >= 2 {
				w.Count("marshal: policy with a record literal of >=2 fields")
			}
			if len(pols) >= 2 || maxAnn >= 2 || maxRec >= 2 {
				w.NonTrivial("policies|" + form + "|" + strings.Join(ac.texts, "\n"))
				w.Count("cases with >=2 map entries on the exercised path")
			}
			if i%500 == 2 {
				w.Sample("marshal-policyset", map[string]any{"form": form, "sources": ac.texts, "cedar": string(sets[0].MarshalCedar())})
			}
		case 4: // schemas
			s, decls := c14Schema(r, c.Thorough() || r.P(0.3))
			sc := schema.NewSchemaFromAST(s)
			first := ""
			c14check(w, cfg, "marshal:Schema.MarshalCedar:bytes-vary", "MarshalCedar of one schema", map[string]any{"declarations": decls}, func(int) string {
				b, err := sc.MarshalCedar()
				if err != nil {
					return "error (message not compared)"
				}
				first = string(b)
				return first
			})
			in := map[string]any{"declarations": decls, "schema_cedar": first}
			c14check(w, cfg, "marshal:Schema.MarshalJSON:bytes-vary", "MarshalJSON of one schema", in, func(int) string {
				b, err := sc.MarshalJSON()
				if err != nil {
					return "error (message not compared)"
				}
				return string(b)
			})
			w.Count(fmt.Sprintf("marshal: schema with %d+ declarations", decls/5*5))
			if decls >= 2 {
				w.NonTrivial("schema|" + first)
				w.Count("cases with >=2 map entries on the exercised path")
			}
			if i%500 == 4 {
				w.Sample("marshal-schema", map[string]any{"declarations": decls, "cedar": first})
			}
		}
	})
}

// ---------------------------------------------------------------------------------------
// stream "codec": the same bytes decoded afresh and re-encoded, repeatedly

// c14codec runs decode->encode R times with a fresh decode each time. dec returns the
// re-encoded bytes or ok=false if the decoder rejected the input. Outputs "decode-error" and
// the encoded bytes are both observations (the decode verdict must not vary either).
func c14codec(w *mon.W, cfg c14cfgT, name string, input string, dec func() (string, bool)) *c14Out {
	out := c14Repeat(cfg.R, func(int) string {
		s, ok := dec()
		if !ok {
			return "decode-error (message not compared)"
		}
		return "ok:" + s
	})
	w.Evals(cfg.R)
	w.Count(fmt.Sprintf("%s: distinct outputs = %d", name, out.N()))
	if out.N() == 1 {
		switch {
		case strings.HasPrefix(out.order[0], "decode-error"):
			w.Count(name + ": input rejected by the decoder (every time)")
		case strings.HasPrefix(out.order[0], "PANIC"):
			w.Count("deterministic panic observed (not this property's concern): " + strings.SplitN(out.order[0], ":", 2)[0])
		}
	}
	return out
}

func c14codecViolation(w *mon.W, cfg c14cfgT, sig, name, input string, out *c14Out, extra map[string]any) {
	wit := map[string]any{"input_bytes": input, "distinct_outputs": out.Witness()}
	for k, v := range extra {
		wit[k] = v
	}
	w.Violation(sig, fmt.Sprintf("%s of the same bytes (fresh decode each time) gives %d different outputs over %d repetitions: %s", name, out.N(), cfg.R, c14diff(out.order[0], out.order[1])), wit)
}

func c14policyJSONtoCedar(src string) (string, bool) {
	var p cedar.Policy
	if err := p.UnmarshalJSON([]byte(src)); err != nil {
		return "", false
	}
	return string(p.MarshalCedar()), true
}

func c14policyJSONtoJSON(src string) (string, bool) {
	var p cedar.Policy
	if err := p.UnmarshalJSON([]byte(src)); err != nil {
		return "", false
	}
	b, err := p.MarshalJSON()
	if err != nil {
		return "", false
	}
	return string(b), true
}

var c14allScope = model.Scope{Kind: model.ScAll}

// c14localisePolicyJSON splits a varying JSON->Cedar rendering into its causes.
func c14localisePolicyJSON(w *mon.W, cfg c14cfgT, mp *model.Policy, src string, full *c14Out) bool {
	varies := func(p *model.Policy) (string, *c14Out) {
		s := c14PolicyJSON(p, nil)
		f := func(int) string {
			t, ok := c14policyJSONtoCedar(s)
			if !ok {
				return "decode-error"
			}
			return t
		}
		if !c14Varies(cfg.Rloc, f) {
			return s, &c14Out{order: []string{""}}
		}
		return s, c14Repeat(cfg.Rloc, f)
	}
	found := false
	// annotations only
	if len(mp.Annots) >= 2 {
		ann := append([]model.Annot{}, mp.Annots...)
		p := &model.Policy{Permit: true, P: c14allScope, A: c14allScope, R: c14allScope, Annots: ann}
		if s, o := varies(p); o.N() >= 2 {
			for len(p.Annots) > 2 {
				q := *p
				q.Annots = p.Annots[:len(p.Annots)-1]
				if s2, o2 := varies(&q); o2.N() >= 2 {
					p, s, o = &q, s2, o2
					continue
				}
				break
			}
			found = true
			c14codecViolation(w, cfg, "policy-json->cedar:annotation-order-varies", "Policy.UnmarshalJSON -> MarshalCedar", s, o,
				map[string]any{"annotations": len(p.Annots), "original_input": src})
		}
	}
	// condition bodies without annotations: smallest record literal that varies on its own
	var recs []*model.Expr
	for _, cd := range mp.Conds {
		cd.Body.Walk(func(x *model.Expr) {
			if x.Op == model.ORecord && len(x.Args) >= 2 {
				recs = append(recs, x)
			}
			if x.Op == model.OLit && x.V.K == model.KRecord && len(x.V.Keys) >= 2 {
				recs = append(recs, x)
			}
		})
	}
	sort.SliceStable(recs, func(i, j int) bool { return recs[i].Size() < recs[j].Size() })
	for _, rec := range recs {
		p := &model.Policy{Permit: true, P: c14allScope, A: c14allScope, R: c14allScope, Conds: []model.Cond{{When: true, Body: rec}}}
		s, o := varies(p)
		if o.N() < 2 {
			continue
		}
		if rec.Op == model.ORecord {
			ks, as := rec.Keys, rec.Args
			for len(ks) > 2 {
				q := &model.Policy{Permit: true, P: c14allScope, A: c14allScope, R: c14allScope, Conds: []model.Cond{{When: true, Body: model.RecE(ks[:len(ks)-1], as[:len(as)-1])}}}
				if s2, o2 := varies(q); o2.N() >= 2 {
					ks, as, s, o = ks[:len(ks)-1], as[:len(as)-1], s2, o2
					continue
				}
				break
			}
		}
		found = true
		c14codecViolation(w, cfg, "policy-json->cedar:record-key-order-varies", "Policy.UnmarshalJSON -> MarshalCedar", s, o,
			map[string]any{"record_literal": render.Canon(rec), "original_input": src})
		break
	}
	if !found && full != nil {
		c14codecViolation(w, cfg, "policy-json->cedar:bytes-vary(unlocalised)", "Policy.UnmarshalJSON -> MarshalCedar", src, full, map[string]any{"policy": render.CanonPolicy(mp)})
	}
	return found
}

func c14codecStream(c *mon.Ctx, cfg c14cfgT, n int) {
	c.ParFor("codec", n, func(w *mon.W, i int) {
		r := w.Rand()
		switch i % 6 {
		case 0, 1: // policy JSON -> Cedar text / JSON; policy-set JSON
			np := 1 + r.Intn(3)
			jr := w.RandSub("json")
			var pols []*model.Policy
			var ids []string
			anyVaried := false
			nt := false
			for k := 0; k < np; k++ {
				mp := c14Policy(r, []int{0, 3, 3, 3, 1}[r.Intn(5)])
				pols = append(pols, mp)
				ids = append(ids, fmt.Sprintf("p%d", k))
				src := c14PolicyJSON(mp, jr)
				maxRec := 0
				for _, cd := range mp.Conds {
					cd.Body.Walk(func(x *model.Expr) {
						if x.Op == model.ORecord && len(x.Args) > maxRec {
							maxRec = len(x.Args)
						}
					})
				}
				if len(mp.Annots) >= 3 {
					w.Count("codec: JSON policy with >=3 annotations")
				}
				if maxRec >= 3 {
					w.Count("codec: JSON policy with a record literal of >=3 keys")
				}
				if len(mp.Annots) >= 2 || maxRec >= 2 {
					nt = true
				}
				oc := c14codec(w, cfg, "policy-json->cedar", src, func() (string, bool) { return c14policyJSONtoCedar(src) })
				if oc.N() >= 2 {
					anyVaried = true
					c14localisePolicyJSON(w, cfg, mp, src, oc)
				}
				oj := c14codec(w, cfg, "policy-json->json", src, func() (string, bool) { return c14policyJSONtoJSON(src) })
				if oj.N() >= 2 {
					anyVaried = true
					c14codecViolation(w, cfg, "policy-json->json:bytes-vary", "Policy.UnmarshalJSON -> MarshalJSON", src, oj, nil)
				}
				if i%600 == 0 && k == 0 {
					w.Sample("codec-policy-json", map[string]any{"input": src, "output": oc.order[0]})
				}
			}
			set := c14PolicySetJSON(ids, pols, jr)
			os := c14codec(w, cfg, "policyset-json->cedar", set, func() (string, bool) {
				var ps cedar.PolicySet
				if err := ps.UnmarshalJSON([]byte(set)); err != nil {
					return "", false
				}
				return string(ps.MarshalCedar()), true
			})
			if os.N() >= 2 && !anyVaried {
				// the per-policy runs may have missed the leak (1/8 per repetition): look again with more repetitions
				for _, mp := range pols {
					if c14localisePolicyJSON(w, cfg, mp, c14PolicyJSON(mp, nil), nil) {
						anyVaried = true
					}
				}
			}
			if os.N() >= 2 && !anyVaried {
				c14codecViolation(w, cfg, "policyset-json->cedar:bytes-vary", "PolicySet.UnmarshalJSON -> MarshalCedar", set, os, nil)
			}
			oj := c14codec(w, cfg, "policyset-json->json", set, func() (string, bool) {
				var ps cedar.PolicySet
				if err := ps.UnmarshalJSON([]byte(set)); err != nil {
					return "", false
				}
				b, err := ps.MarshalJSON()
				return string(b), err == nil
			})
			if oj.N() >= 2 && !anyVaried {
				c14codecViolation(w, cfg, "policyset-json->json:bytes-vary", "PolicySet.UnmarshalJSON -> MarshalJSON", set, oj, nil)
			}
			if nt || np >= 2 {
				w.NonTrivial("policy-json|" + set)
				w.Count("cases with >=2 map entries on the exercised path")
			}
		case 2: // policy text -> Cedar text / JSON
			np := 1 + r.Intn(4)
			pr := &render.Printer{R: w.RandSub("print"), Sugar: true, Noise: r.P(0.3)}
			var parts []string
			nt := np >= 2
			for k := 0; k < np; k++ {
				mp := c14Policy(r, []int{0, 3, 3, 1}[r.Intn(4)])
				if len(mp.Annots) >= 2 {
					nt = true
				}
				parts = append(parts, pr.Policy(mp))
			}
			doc := strings.Join(parts, "\n")
			oc := c14codec(w, cfg, "policy-text->cedar", doc, func() (string, bool) {
				var l cedar.PolicyList
				if err := l.UnmarshalCedar([]byte(doc)); err != nil {
					return "", false
				}
				return string(l.MarshalCedar()), true
			})
			if oc.N() >= 2 {
				c14codecViolation(w, cfg, "policy-text->cedar:bytes-vary", "PolicyList.UnmarshalCedar -> MarshalCedar", doc, oc, nil)
			}
			oj := c14codec(w, cfg, "policy-text->json", doc, func() (string, bool) {
				ps, err := cedar.NewPolicySetFromBytes("f.cedar", []byte(doc))
				if err != nil {
					return "", false
				}
				b, err := ps.MarshalJSON()
				return string(b), err == nil
			})
			if oj.N() >= 2 {
				c14codecViolation(w, cfg, "policy-text->json:bytes-vary", "NewPolicySetFromBytes -> MarshalJSON", doc, oj, nil)
			}
			if nt {
				w.NonTrivial("policy-text|" + doc)
				w.Count("cases with >=2 map entries on the exercised path")
			}
			if i%600 == 2 {
				w.Sample("codec-policy-text", map[string]any{"input": doc, "output": oc.order[0]})
			}
		case 3: // entities JSON
			env := c14bigEnv(r)
			src := c14EntitiesJSON(env, w.RandSub("json"))
			o := c14codec(w, cfg, "entities-json->json", src, func() (string, bool) {
				var m types.EntityMap
				if err := json.Unmarshal([]byte(src), &m); err != nil {
					return "", false
				}
				b, err := json.Marshal(m)
				return string(b), err == nil
			})
			if o.N() >= 2 {
				c14codecViolation(w, cfg, "entities-json->json:bytes-vary", "EntityMap.UnmarshalJSON -> MarshalJSON", src, o, nil)
			}
			if len(env.Store) >= 2 {
				w.NonTrivial("entities-json|" + src)
				w.Count("cases with >=2 map entries on the exercised path")
			}
			if i%600 == 3 {
				w.Sample("codec-entities", map[string]any{"input": src, "output": o.order[0]})
			}
		case 4: // value JSON
			mv := c14safeVal(c14biasedVal(r, 2))
			src := c14ValJSON(mv, w.RandSub("json"))
			oj := c14codec(w, cfg, "value-json->json", src, func() (string, bool) {
				var v types.Value
				if err := types.UnmarshalJSON([]byte(src), &v); err != nil {
					return "", false
				}
				b, err := json.Marshal(v)
				return string(b), err == nil
			})
			if oj.N() >= 2 {
				c14codecViolation(w, cfg, "value-json->json:bytes-vary", "types.UnmarshalJSON -> MarshalJSON", src, oj, nil)
			}
			oc := c14codec(w, cfg, "value-json->cedar", src, func() (string, bool) {
				var v types.Value
				if err := types.UnmarshalJSON([]byte(src), &v); err != nil {
					return "", false
				}
				return string(v.MarshalCedar()), true
			})
			if oc.N() >= 2 {
				c14codecViolation(w, cfg, "value-json->cedar:bytes-vary", "types.UnmarshalJSON -> MarshalCedar", src, oc, nil)
			}
			if c14entries(mv) >= 2 {
				w.NonTrivial("value-json|" + src)
				w.Count("cases with >=2 map entries on the exercised path")
			}
			if i%600 == 4 {
				w.Sample("codec-value", map[string]any{"input": src, "json": oj.order[0], "cedar": oc.order[0]})
			}
		case 5: // schemas: JSON and text, each re-encoded to both formats
			s, decls := c14Schema(r, c.Thorough() || r.P(0.3))
			sc := schema.NewSchemaFromAST(s)
			jb, jerr := sc.MarshalJSON()
			cb, cerr := sc.MarshalCedar()
			if jerr != nil || cerr != nil {
				w.Count("codec: schema could not be marshalled to produce input bytes")
				return
			}
			type enc struct {
				name string
				f    func(*schema.Schema) ([]byte, error)
			}
			encs := []enc{{"json", (*schema.Schema).MarshalJSON}, {"cedar", (*schema.Schema).MarshalCedar}}
			for _, e := range encs {
				e := e
				oj := c14codec(w, cfg, "schema-json->"+e.name, string(jb), func() (string, bool) {
					var s2 schema.Schema
					if err := s2.UnmarshalJSON(jb); err != nil {
						return "", false
					}
					b, err := e.f(&s2)
					return string(b), err == nil
				})
				if oj.N() >= 2 {
					c14codecViolation(w, cfg, "schema-json->"+e.name+":bytes-vary", "Schema.UnmarshalJSON -> Marshal"+e.name, string(jb), oj, nil)
				}
				oc := c14codec(w, cfg, "schema-cedar->"+e.name, string(cb), func() (string, bool) {
					var s2 schema.Schema
					if err := s2.UnmarshalCedar(cb); err != nil {
						return "", false
					}
					b, err := e.f(&s2)
					return string(b), err == nil
				})
				if oc.N() >= 2 {
					c14codecViolation(w, cfg, "schema-cedar->"+e.name+":bytes-vary", "Schema.UnmarshalCedar -> Marshal"+e.name, string(cb), oc, nil)
				}
			}
			w.Count(fmt.Sprintf("codec: schema with %d+ declarations", decls/5*5))
			if decls >= 2 {
				w.NonTrivial("schema-codec|" + string(cb))
				w.Count("cases with >=2 map entries on the exercised path")
			}
			if i%600 == 5 {
				w.Sample("codec-schema", map[string]any{"declarations": decls, "input_cedar": string(cb)})
			}
		}
	})
}

func C14(c *mon.Ctx) {
	cfg := c14cfgT{R: 24, Rb: 8, Rloc: 200}
	if c.Thorough() {
		cfg = c14cfgT{R: 64, Rb: 16, Rloc: 200}
	}
	c.Rule = fmt.Sprintf("Oracle: the number of distinct outputs over R=%d repetitions of the SAME call must be 1 (each `range` over a Go map inside cedar-go is a fresh random schedule; batch.Authorize R=%d). "+
		"Stream authorize: 1-6 policies (40%% with a record literal holding >=2 failing fields of different error kinds, 10%% `in` over a set of non-entities, 10%% many annotations/wide records, 10%% wrong-typed receiver with a failing argument, rest random type-directed trees with 10%% ill-typed operands) from Cedar text, AST or harness-written JSON, "+
		"compiled afresh 4 times and added in 4 shuffled orders to a PolicySet / PolicyMap, entities inserted in 4 shuffled orders into an EntityMap; output = decision, sorted reason ids, sorted (policy id, message) pairs over cedar.Authorize / PolicySet.IsAuthorized / Authorize(PolicyMap); the same policies through batch.Authorize (no variables, principal / resource / context-field variables, ignored context), output = set of (substitution -> decision, reasons, errors with messages). "+
		"Stream authorize-batch-directed: one variable in two fields of the context record. "+
		"Stream marshal: one object marshalled R times: values (sets of hash-colliding members, wide/nested records) MarshalCedar/MarshalJSON/String; Entity, EntityMap (also the same Entity values inserted in shuffled orders), Request; Policy/PolicySet/PolicyList MarshalCedar/MarshalJSON (also the same policies added in shuffled orders); schemas (x/exp/schema) MarshalCedar/MarshalJSON. "+
		"Stream codec: the same bytes decoded AFRESH each repetition and re-encoded: policy JSON (0-6 annotations, record literals of 2-6 keys, nested) -> Cedar text and JSON, policy-set JSON, policy text -> text/JSON, entities JSON, value JSON, schema JSON/text -> both formats. "+
		"distinct_nontrivial = distinct rendered inputs with >=2 map entries on the exercised path (>=2 policies / entities / record fields / annotations / set members / schema declarations).", cfg.R, cfg.Rb)
	c.Assume = []string{
		"byte-equality is demanded only for repeated marshalling of ONE object, for the same element objects inserted in different orders into a PolicySet/EntityMap (both marshallers sort by id), and for fresh decodes of the same bytes; never across different constructions of an equal Cedar set",
		"Diagnostic.Reasons/Errors and batch callbacks are compared as sets (sorted); their order is not part of the property",
		"messages of decoder errors and of the error returned by batch.Authorize itself (unbound/unused variable) are not compared, only whether the call fails; a deterministic panic is recorded but is not this property's concern (C10)",
		"datetime values below cedar-go's lower parsing bound are clamped in inputs that go through a JSON decode (known finding of C12/C13)",
		"the reference evaluator is used only to classify a failure (which record fields fail), never for the verdict",
	}
	c.Floor = 1500
	c.Extra["repetitions"] = cfg.R
	c.Extra["p_miss_per_case"] = fmt.Sprintf("go1.23 starts iterating a small map at a random slot of its 8-slot bucket, so a 2-entry map yields the swapped order with probability 1/8 (measured): one case misses a 2-way order leak with probability (7/8)^%d = %.2g; every leak class is exercised by hundreds of cases per run. Localisation re-runs use %d repetitions.", cfg.R-1, math.Pow(0.875, float64(cfg.R-1)), cfg.Rloc)
	c14authStream(c, cfg, "authorize", c.N(3000, 30000), -1)
	c14authStream(c, cfg, "authorize-batch-directed", c.N(150, 1500), 5)
	c14marshalStream(c, cfg, c.N(2000, 20000))
	c14codecStream(c, cfg, c.N(2400, 24000))
}
