// C10 workload: seed pool from the corpus tarballs, independent JSON writers, structural JSON
// mutation, token and byte mutation, directed shapes and deep-nesting constructs.
package props

import (
	"archive/tar"
	"bytes"
	"compress/gzip"
	"encoding/json"
	"fmt"
	"io"
	"os"
	"sort"
	"strconv"
	"strings"

	cedar "github.com/cedar-policy/cedar-go"
	"github.com/cedar-policy/cedar-go/x/exp/schema"

	"verif/internal/gen"
	"verif/internal/model"
	"verif/internal/mon"
	"verif/internal/render"
)

// c10Shot is one decoder invocation: (target decoder, input bytes).
type c10Shot struct {
	Target string
	In     []byte
	Class  string // input class (mutation kind, construct...) for counters
	Desc   string // compact description for very large inputs
	NoJSON bool   // skip the JSON encoders on the accepted value (their cost grows with size x depth)
}

type c10Seed struct {
	Kind string
	Doc  string
}

var c10TextPolicyTargets = []string{"policy.text", "policylist.text", "policylist.frombytes", "policyset.frombytes", "decoder.stream"}

var c10KindTargets = map[string][]string{
	"cedar":         c10TextPolicyTargets,
	"schematext":    {"schema.text"},
	"uidtext":       {"entityuid.text"},
	"policyjson":    {"policy.json"},
	"policysetjson": {"policyset.json"},
	"entityjson":    {"entity.json"},
	"entitymapjson": {"entitymap.json"},
	"valuejson":     {"value.json"},
	"recordjson":    {"record.json", "value.json"},
	"setjson":       {"set.json", "value.json"},
	"decimaljson":   {"decimal.json", "value.json"},
	"datetimejson":  {"datetime.json", "value.json"},
	"durationjson":  {"duration.json", "value.json"},
	"ipjson":        {"ipaddr.json", "value.json"},
	"uidjson":       {"entityuid.json", "value.json"},
	"patternjson":   {"pattern.json"},
	"schemajson":    {"schema.json"},
}

var c10AllTargets = []string{"policy.text", "policylist.text", "policylist.frombytes", "policyset.frombytes", "decoder.stream",
	"policy.json", "policyset.json", "entity.json", "entitymap.json", "value.json", "record.json", "set.json",
	"decimal.json", "datetime.json", "duration.json", "ipaddr.json", "entityuid.json", "pattern.json", "entityuid.text",
	"schema.text", "schema.json"}

var c10JSONKinds = []string{"policyjson", "policyjson", "policyjson", "policysetjson", "entityjson", "entitymapjson", "entitymapjson", "valuejson", "recordjson", "setjson",
	"decimaljson", "datetimejson", "durationjson", "ipjson", "uidjson", "patternjson", "schemajson", "schemajson", "schemajson"}

var c10AllKinds = []string{"cedar", "cedar", "cedar", "schematext", "schematext", "uidtext", "policyjson", "policyjson", "policysetjson", "entityjson", "entitymapjson",
	"valuejson", "recordjson", "setjson", "decimaljson", "datetimejson", "durationjson", "ipjson", "uidjson", "patternjson", "schemajson", "schemajson"}

const c10SchemaTextSink = `@doc("x") namespace NS {
  type T = { a: Long, b?: String, c: Set<Set<Bool>>, d: { e: ipaddr, f: decimal, }, g: NS::U, "q t"?: datetime, @a("b") h: __cedar::Long };
  type T2 = Set<T>;
  @doc entity U in [G] = { name: String, t: T } tags String;
  entity G, H in G;
  entity E enum ["a", "b"];
  entity V { x?: Set<U> } tags Set<Long>;
  action "view", edit in [grp, NS::Action::"all"] appliesTo { principal: [U], resource: [G, H], context: T };
  action grp; action all in grp;
  action other appliesTo { principal: U, resource: G, context: { n: Long, }, };
}
entity Z;
type Q = Z;
action z appliesTo { principal: Z, resource: Z, context: {} };
`

const c10SchemaJSONSink = `{"NS":{"commonTypes":{"T":{"type":"Record","attributes":{"a":{"type":"Long"},"b":{"type":"String","required":false},"c":{"type":"Set","element":{"type":"Set","element":{"type":"Boolean"}}},"d":{"type":"Record","attributes":{"e":{"type":"Extension","name":"ipaddr"}}},"g":{"type":"Entity","name":"U"},"h":{"type":"EntityOrCommon","name":"T2","annotations":{"k":"v"}},"i":{"type":"T2","required":true}},"annotations":{"doc":"x"}},"T2":{"type":"Long"}},"entityTypes":{"U":{"memberOfTypes":["G"],"shape":{"type":"Record","attributes":{"name":{"type":"String"}}},"tags":{"type":"String"},"annotations":{"a":"b"}},"G":{},"E":{"enum":["a","b"]}},"actions":{"view":{"memberOf":[{"id":"grp"},{"id":"all","type":"NS::Action"}],"appliesTo":{"principalTypes":["U"],"resourceTypes":["G"],"context":{"type":"T"}},"annotations":{"x":"y"}},"grp":{},"all":{"appliesTo":{"principalTypes":[],"resourceTypes":[]}}},"annotations":{"n":"m"}},"":{"entityTypes":{"Z":{}},"actions":{"z":{"appliesTo":{"principalTypes":["Z"],"resourceTypes":["Z"],"context":{"type":"Record","attributes":{}}}}}}}`

// c10Gen regenerates cases: a pure function of (seed, tier, stream, index) and the corpus tarballs.
type c10Gen struct {
	c        *mon.Ctx
	pool     *c10Pool
	thorough bool
	fixed    []c10Seed // fixed JSON seeds for json-struct
	fixedTxt []c10Seed // fixed text seeds for text-token
	directed []c10Shot
	deep     []c10Deep
}

func c10NewGen(c *mon.Ctx) *c10Gen {
	g := &c10Gen{c: c, thorough: c.Thorough()}
	per := 120
	if g.thorough {
		per = 600
	}
	if path := os.Getenv("C10_POOL"); path != "" {
		if b, err := os.ReadFile(path); err == nil {
			var pl c10Pool
			if json.Unmarshal(b, &pl) == nil && len(pl.Cedar) > 0 {
				g.pool = &pl
			}
		}
	}
	if g.pool == nil {
		g.pool = c10LoadPool(per)
	}
	g.buildFixed()
	return g
}

// need builds the case tables a stream uses (children only pay for their own stream).
func (g *c10Gen) need(stream string) {
	if stream == "directed" && g.directed == nil {
		g.directed = c10Directed()
	}
	if stream == "deep" && g.deep == nil {
		g.deep = c10DeepCases(g.thorough)
	}
}

func (g *c10Gen) buildFixed() {
	fp := c10FixedPolicies()
	for _, p := range fp {
		g.fixed = append(g.fixed, c10Seed{"policyjson", c10PolicyJSON(nil, p)})
		g.fixedTxt = append(g.fixedTxt, c10Seed{"cedar", render.CanonPolicy(p)})
	}
	g.fixed = append(g.fixed, c10Seed{"policysetjson", c10PolicySetJSON(nil, fp[:3])})
	env := baseEnv()
	g.fixed = append(g.fixed, c10Seed{"entitymapjson", c10EntityMapJSON(nil, env.Store)})
	for _, e := range env.SortedStore() {
		g.fixed = append(g.fixed, c10Seed{"entityjson", c10EntityJSON(nil, e)})
		break
	}
	g.fixed = append(g.fixed, c10Seed{"entityjson", `{"uid":{"__entity":{"type":"U","id":"a"}},"parents":[{"__entity":{"type":"G","id":"a"}},{"type":"G","id":"b"}],"attrs":{"a":1,"e":{"__entity":{"type":"U","id":"zz"}},"x":{"__extn":{"fn":"ip","arg":"10.0.0.1/8"}},"s":[1,[2,{"k":true}]]},"tags":{"t":"v"}}`})
	big := model.Rec("l", model.Long(-5), "s", model.Str("x"), "b", model.Bool(false), "e", model.Ent("U", "a"), "set", model.Set(model.Long(1), model.Set(model.Str("y"))),
		"rec", model.Rec("d", model.Decimal(-12345), "ip", gen.IPs[21], "dt", model.Datetime(-1), "du", model.Duration(-90061001)))
	g.fixed = append(g.fixed, c10Seed{"valuejson", c10ValueJSON(nil, big)}, c10Seed{"recordjson", c10ValueJSON(nil, big)},
		c10Seed{"setjson", c10ValueJSON(nil, model.Set(big, model.Long(3), model.Set()))})
	for _, v := range []model.Val{model.Decimal(12345), model.Datetime(1700000000000), model.Duration(90061001), gen.IPs[8]} {
		fn, arg := c10ExtArg(v)
		kind := map[string]string{"decimal": "decimaljson", "datetime": "datetimejson", "duration": "durationjson", "ip": "ipjson"}[fn]
		g.fixed = append(g.fixed, c10Seed{kind, `{"__extn":{"fn":` + c10Q(fn) + `,"arg":` + c10Q(arg) + `}}`},
			c10Seed{kind, `{"fn":` + c10Q(fn) + `,"arg":` + c10Q(arg) + `}`}, c10Seed{kind, c10Q(arg)})
	}
	g.fixed = append(g.fixed, c10Seed{"uidjson", `{"__entity":{"type":"NS::T","id":"a"}}`}, c10Seed{"uidjson", `{"type":"NS::T","id":"a"}`},
		c10Seed{"patternjson", `["Wildcard",{"Literal":"a*"},"Wildcard","Wildcard",{"Literal":""}]`},
		c10Seed{"schemajson", c10SchemaJSONSink})
	g.fixedTxt = append(g.fixedTxt, c10Seed{"schematext", c10SchemaTextSink}, c10Seed{"uidtext", `NS::T::"a\"b\u{1F600}\n"`}, c10Seed{"uidtext", `U::""`},
		c10Seed{"cedar", "@id(\"x\")\n// c\npermit(principal == U::\"a\", action in [Action::\"view\", Action::\"b\"], resource is G in G::\"b\")\nwhen { principal has a.b.c && context.x like \"a*\\*\" /* c */ || ip(\"1.2.3.4\").isInRange(ip(\"1.0.0.0/8\")) }\nunless { if -1 < 2 then [1, {a: 2, \"b c\": principal}].contains(3) else !(resource.tags[\"k\"] == 4 * 5 - 6) };\nforbid(principal, action, resource);"})
}

// ---------------------------------------------------------------------------------------
// random seeds

func c10TypedJSON(r *mon.Rand, kind string) string {
	var v model.Val
	switch kind {
	case "decimaljson":
		v = model.Decimal(mon.Pick(r, gen.Decimals))
	case "datetimejson":
		v = model.Datetime(mon.Pick(r, gen.Datetimes))
	case "durationjson":
		v = model.Duration(mon.Pick(r, gen.Durations))
	default:
		v = gen.RandIP(r)
	}
	fn, arg := c10ExtArg(v)
	if r.P(0.15) {
		arg = mon.Pick(r, gen.BadLiterals())
	}
	switch r.Intn(3) {
	case 0:
		return `{"__extn":{"fn":` + c10Q(fn) + `,"arg":` + c10Q(arg) + `}}`
	case 1:
		return `{"fn":` + c10Q(fn) + `,"arg":` + c10Q(arg) + `}`
	}
	return c10Q(arg)
}

func (g *c10Gen) genDoc(r *mon.Rand, kind string) (string, bool) {
	cfg := gen.DefaultCfg
	switch kind {
	case "cedar":
		n := 1 + r.Intn(3)
		var sb strings.Builder
		for i := 0; i < n; i++ {
			pr := &render.Printer{Mode: render.Mode(r.Intn(2)), R: r, Noise: r.Bool(), Sugar: r.Bool()}
			sb.WriteString(pr.Policy(gen.RandPolicy(r, cfg, 1+r.Intn(4))))
			sb.WriteString("\n")
		}
		return sb.String(), true
	case "policyjson":
		return c10PolicyJSON(r, gen.RandPolicy(r, cfg, 1+r.Intn(4))), true
	case "policysetjson":
		n := r.Intn(4)
		var ps []*model.Policy
		for i := 0; i < n; i++ {
			ps = append(ps, gen.RandPolicy(r, cfg, 1+r.Intn(3)))
		}
		return c10PolicySetJSON(r, ps), true
	case "entitymapjson":
		return c10EntityMapJSON(r, gen.RandStore(r)), true
	case "entityjson":
		for _, e := range gen.RandEnv(r).SortedStore() {
			return c10EntityJSON(r, e), true
		}
		return `{"uid":{"type":"U","id":"a"},"parents":[],"attrs":{}}`, true
	case "valuejson":
		return c10ValueJSON(r, gen.RandVal(r, 3)), true
	case "recordjson":
		return c10ValueJSON(r, gen.RandValOf(r, model.KRecord, 3)), true
	case "setjson":
		return c10ValueJSON(r, gen.RandValOf(r, model.KSet, 3)), true
	case "decimaljson", "datetimejson", "durationjson", "ipjson":
		return c10TypedJSON(r, kind), true
	case "uidjson":
		u := gen.RandUID(r)
		if r.Bool() {
			return `{"__entity":` + c10UIDImplicit(u) + `}`, true
		}
		return c10UIDImplicit(u), true
	case "uidtext":
		u := gen.RandUID(r)
		return u.T + "::" + model.QuoteString(u.ID), true
	case "patternjson":
		return c10PatternJSON(gen.RandPattern(r)), true
	}
	return "", false
}

func (g *c10Gen) poolDocs(kind string) []string {
	p := g.pool
	switch kind {
	case "cedar":
		return p.Cedar
	case "schematext":
		return p.SchemaText
	case "policyjson":
		return p.PolicyJSON
	case "policysetjson":
		return p.PolicySetJSON
	case "entitymapjson":
		return p.EntitiesJSON
	case "valuejson", "recordjson":
		if len(p.ValidationJSON) > 0 {
			return append(append([]string{}, p.TestJSON...), p.ValidationJSON...)
		}
		return p.TestJSON
	case "schemajson":
		return append(append([]string{}, p.SchemaJSON...), p.SchemaJSONConv...)
	}
	return nil
}

// randSeed picks a seed document of the given kind: from the corpus pool or generated.
func (g *c10Gen) randSeed(r *mon.Rand, kind string) c10Seed {
	pd := g.poolDocs(kind)
	if len(pd) > 0 && (r.P(0.5) || kind == "schematext" || kind == "schemajson") {
		if kind == "schematext" && r.P(0.1) {
			return c10Seed{kind, c10SchemaTextSink}
		}
		if kind == "schemajson" && r.P(0.1) {
			return c10Seed{kind, c10SchemaJSONSink}
		}
		return c10Seed{kind, mon.Pick(r, pd)}
	}
	if d, ok := g.genDoc(r, kind); ok {
		return c10Seed{kind, d}
	}
	if kind == "schematext" {
		return c10Seed{kind, c10SchemaTextSink}
	}
	if kind == "schemajson" {
		return c10Seed{kind, c10SchemaJSONSink}
	}
	if len(pd) > 0 {
		return c10Seed{kind, mon.Pick(r, pd)}
	}
	return c10Seed{"valuejson", "0"}
}

// ---------------------------------------------------------------------------------------
// stream sizes

func (g *c10Gen) Count(stream string) int {
	g.need(stream)
	n := func(q, t int) int {
		if g.thorough {
			return t
		}
		return q
	}
	switch stream {
	case "directed":
		return len(g.directed)
	case "json-struct":
		return len(g.fixed) + n(130, 1200)
	case "text-token":
		return len(g.fixedTxt) + n(100, 1000)
	case "byte-mut":
		return n(3000, 40000)
	case "random-bytes":
		return n(1500, 8000)
	case "valid-gen":
		return n(2500, 30000)
	case "deep":
		return len(g.deep)
	}
	return 0
}

var c10Streams = []string{"directed", "json-struct", "text-token", "byte-mut", "random-bytes", "valid-gen"}

func (g *c10Gen) Case(stream string, idx int) []c10Shot {
	g.need(stream)
	r := g.c.Rand(stream, idx)
	switch stream {
	case "directed":
		return []c10Shot{g.directed[idx]}
	case "json-struct":
		return g.caseJSONStruct(r, idx)
	case "text-token":
		return g.caseTextToken(r, idx)
	case "byte-mut":
		return g.caseByteMut(r)
	case "random-bytes":
		return g.caseRandomBytes(r)
	case "valid-gen":
		return g.caseValid(r)
	case "deep":
		d := g.deep[idx]
		return []c10Shot{{Target: d.Target, In: d.Build(), Class: "deep:" + d.Construct, Desc: fmt.Sprintf("%s depth=%d", d.Construct, d.Depth), NoJSON: d.Depth > 2048 && !d.JSONish}}
	}
	return nil
}

// ---------------------------------------------------------------------------------------
// json-struct: every node position x every replacement atom, every key/element deleted,
// duplicated, and an unknown key added to every object

func c10JSONTargets(kind string, doc string) []string {
	return c10KindTargets[kind]
}

func (g *c10Gen) caseJSONStruct(r *mon.Rand, idx int) []c10Shot {
	var seed c10Seed
	if idx < len(g.fixed) {
		seed = g.fixed[idx]
	} else {
		seed = g.randSeed(r, mon.Pick(r, c10JSONKinds))
	}
	root, ok := c10ParseJSON(seed.Doc)
	if !ok {
		return nil
	}
	targets := c10JSONTargets(seed.Kind, seed.Doc)
	total := root.count()
	// cap the number of positions for big documents (random sample, deterministic)
	maxPos := 160
	if g.thorough {
		maxPos = 400
	}
	keep := map[int]bool{}
	if total > maxPos {
		for _, p := range r.Perm(total)[:maxPos] {
			keep[p] = true
		}
	}
	var shots []c10Shot
	add := func(m *c10JMut, class string) {
		in := []byte(root.render(m))
		for _, t := range targets {
			shots = append(shots, c10Shot{Target: t, In: in, Class: class})
		}
	}
	add(nil, "json-struct:seed")
	c10JWalk(root, nil, func(n, parent *c10J) {
		if total > maxPos && !keep[n.id] {
			return
		}
		for _, rep := range c10JReplacements {
			add(&c10JMut{id: n.id, mode: 'r', text: rep}, "json-struct:replace:"+rep)
		}
		if parent != nil {
			if parent.kind == 'o' {
				add(&c10JMut{id: n.id, mode: 'd'}, "json-struct:delete-key")
				add(&c10JMut{id: n.id, mode: 'u'}, "json-struct:duplicate-key")
			} else {
				add(&c10JMut{id: n.id, mode: 'd'}, "json-struct:delete-element")
				add(&c10JMut{id: n.id, mode: 'u'}, "json-struct:duplicate-element")
			}
		}
		if n.kind == 'o' {
			add(&c10JMut{id: n.id, mode: 'k', text: `"zz":0`}, "json-struct:add-unknown-key")
			add(&c10JMut{id: n.id, mode: 'k', text: `"":null`}, "json-struct:add-null-key")
		}
		if n.kind == 'a' {
			add(&c10JMut{id: n.id, mode: 'k'}, "json-struct:append-null")
		}
		if n.kind == 's' {
			// string payload replaced by interesting strings (extension args, entity types, op names...)
			for _, s := range []string{"__entity", "__extn", "Wildcard", "\x00", "a::b::", "::", "9999999999999999999999", "\xff\xfe"} {
				add(&c10JMut{id: n.id, mode: 'r', text: c10Q(s)}, "json-struct:string-payload")
			}
		}
	})
	return shots
}

// ---------------------------------------------------------------------------------------
// text-token: truncation at every token boundary, token deletion / duplication / swap /
// replacement by dictionary tokens

type c10Span struct{ a, b int }

func c10Lex(s string) []c10Span {
	var out []c10Span
	i := 0
	isId := func(c byte) bool {
		return c == '_' || (c >= 'a' && c <= 'z') || (c >= 'A' && c <= 'Z') || (c >= '0' && c <= '9') || c >= 0x80
	}
	for i < len(s) {
		c := s[i]
		st := i
		switch {
		case c == ' ' || c == '\t' || c == '\n' || c == '\r':
			i++
			continue
		case c == '/' && i+1 < len(s) && s[i+1] == '/':
			for i < len(s) && s[i] != '\n' {
				i++
			}
		case c == '/' && i+1 < len(s) && s[i+1] == '*':
			j := strings.Index(s[i+2:], "*/")
			if j < 0 {
				i = len(s)
			} else {
				i += j + 4
			}
		case c == '"':
			i++
			for i < len(s) && s[i] != '"' {
				if s[i] == '\\' {
					i++
				}
				i++
			}
			if i < len(s) {
				i++
			}
			if i > len(s) {
				i = len(s)
			}
		case isId(c):
			for i < len(s) && isId(s[i]) {
				i++
			}
		default:
			i++
			if i < len(s) {
				two := s[st : i+1]
				switch two {
				case "==", "!=", "<=", ">=", "&&", "||", "::":
					i++
				}
			}
		}
		out = append(out, c10Span{st, i})
	}
	return out
}

var c10CedarDict = []string{"permit", "forbid", "when", "unless", "principal", "action", "resource", "context", "if", "then", "else", "in", "has", "like", "is",
	"true", "false", "==", "!=", "<", "<=", ">", ">=", "&&", "||", "+", "-", "*", "!", ".", "::", "(", ")", "[", "]", "{", "}", ",", ";", ":", "@", "\"\"", "\"a\"", "0",
	"9223372036854775807", "9223372036854775808", "\"\\u{0}\"", "\"\\u{110000}\"", "\"\\", "\"\\*\"", "ip", "decimal", "contains", "containsAll", "isEmpty", "hasTag", "getTag",
	"lessThan", "isInRange", "offset", "toDate", "?", "=", "/*", "*/", "//", "__cedar", "A::B", "A::\"x\"", "\x00", "\xff", "é", "'", "%", "|", "&"}

var c10SchemaDict = []string{"namespace", "entity", "action", "type", "in", "appliesTo", "principal", "resource", "context", "tags", "enum", "Set", "<", ">", "{", "}", "[", "]",
	"?", ":", ",", ";", "=", "@", "::", "(", ")", "Long", "String", "Bool", "Boolean", "Record", "Entity", "Extension", "ipaddr", "decimal", "datetime", "duration", "__cedar",
	"\"\"", "\"a\"", "\"\\u{0}\"", "\"\\", "A", "A::B", "Action", "Action::\"a\"", "//", "/*", "*/", "0", "\x00", "\xff", "é", ".", "-"}

func (g *c10Gen) caseTextToken(r *mon.Rand, idx int) []c10Shot {
	var seed c10Seed
	if idx < len(g.fixedTxt) {
		seed = g.fixedTxt[idx]
	} else {
		seed = g.randSeed(r, mon.Pick(r, []string{"cedar", "cedar", "cedar", "schematext", "schematext", "uidtext"}))
	}
	s := seed.Doc
	if len(s) > 6000 {
		s = s[:6000]
	}
	toks := c10Lex(s)
	targets := c10KindTargets[seed.Kind]
	dict := c10CedarDict
	if seed.Kind == "schematext" {
		dict = c10SchemaDict
	}
	var shots []c10Shot
	k := 0
	add := func(in string, class string) {
		// rotate over the decoders of the family so that every one sees every mutation kind
		shots = append(shots, c10Shot{Target: targets[k%len(targets)], In: []byte(in), Class: class})
		k++
	}
	for _, t := range targets {
		shots = append(shots, c10Shot{Target: t, In: []byte(s), Class: "text-token:seed"})
	}
	maxTok := 150
	if g.thorough {
		maxTok = 400
	}
	step := 1
	if len(toks) > maxTok {
		step = len(toks)/maxTok + 1
	}
	off := 0
	if step > 1 {
		off = r.Intn(step)
	}
	for i := off; i < len(toks); i += step {
		t := toks[i]
		add(s[:t.a], "text-token:truncate-before-token")
		add(s[:t.b], "text-token:truncate-after-token")
		if t.b-t.a > 1 {
			add(s[:t.a+(t.b-t.a)/2], "text-token:truncate-inside-token")
		}
		add(s[:t.a]+s[t.b:], "text-token:delete-token")
		add(s[:t.b]+" "+s[t.a:], "text-token:duplicate-token")
		if i+1 < len(toks) {
			u := toks[i+1]
			add(s[:t.a]+s[u.a:u.b]+s[t.b:u.a]+s[t.a:t.b]+s[u.b:], "text-token:swap-tokens")
		}
		for j := 0; j < 3; j++ {
			add(s[:t.a]+mon.Pick(r, dict)+s[t.b:], "text-token:replace-token")
		}
		add(s[:t.a]+mon.Pick(r, dict)+" "+s[t.a:], "text-token:insert-token")
		add(s[t.a:], "text-token:drop-prefix")
	}
	return shots
}

// ---------------------------------------------------------------------------------------
// byte-mut: random byte-level mutations of seeds

var c10InterestingBytes = []string{"\x00", "\xff", "\xc0\x80", "\xed\xa0\x80", "\xf4\x90\x80\x80", "\xef\xbf\xbd", "\xe2\x80\xa8", "\"", "\\", "\\u{", "\\u{}", "\\u{FFFFFFFF}", "\\x", "\\u00", "\\ud800",
	"{", "}", "[", "]", "(", ")", ":", ",", "null", "-", "--", "1e999", "0x10", "01", "-0", "9223372036854775808", "-9223372036854775809", "/*", "//", "*", "::", "\n", "\r", "\t", " ", "\u00a0", "\ufeff"}

func c10Mutate(r *mon.Rand, s string, other string) (string, string) {
	b := []byte(s)
	pos := func() int {
		if len(b) == 0 {
			return 0
		}
		return r.Intn(len(b) + 1)
	}
	switch r.Intn(12) {
	case 0:
		if len(b) > 0 {
			p := r.Intn(len(b))
			b[p] ^= 1 << uint(r.Intn(8))
		}
		return string(b), "bit-flip"
	case 1:
		p := pos()
		return string(b[:p]) + string([]byte{byte(r.Intn(256))}) + string(b[p:]), "insert-random-byte"
	case 2:
		p := pos()
		return string(b[:p]) + mon.Pick(r, c10InterestingBytes) + string(b[p:]), "insert-interesting"
	case 3:
		if len(b) > 0 {
			p := r.Intn(len(b))
			n := 1 + r.Intn(min(8, len(b)-p))
			return string(b[:p]) + string(b[p+n:]), "delete-range"
		}
		return s, "delete-range"
	case 4:
		if len(b) > 0 {
			p := r.Intn(len(b))
			n := 1 + r.Intn(min(16, len(b)-p))
			return string(b[:p+n]) + string(b[p:]), "duplicate-range"
		}
		return s, "duplicate-range"
	case 5:
		return string(b[:pos()]), "truncate"
	case 6:
		p := pos()
		q := 0
		if len(other) > 0 {
			q = r.Intn(len(other))
		}
		return string(b[:p]) + other[q:], "splice"
	case 7:
		if len(b) > 0 {
			p := r.Intn(len(b))
			b[p] = byte(r.Intn(256))
		}
		return string(b), "replace-byte"
	case 8:
		// replace a digit run by a huge / odd number
		for i := 0; i < len(b); i++ {
			if b[i] >= '0' && b[i] <= '9' && r.P(0.3) {
				j := i
				for j < len(b) && b[j] >= '0' && b[j] <= '9' {
					j++
				}
				return string(b[:i]) + mon.Pick(r, []string{"9223372036854775807", "9223372036854775808", "99999999999999999999999999", "0", "00", "1.5", "1e5", "-1"}) + string(b[j:]), "number-swap"
			}
		}
		return s, "number-swap"
	case 9:
		// swap two bytes
		if len(b) > 1 {
			p, q := r.Intn(len(b)), r.Intn(len(b))
			b[p], b[q] = b[q], b[p]
		}
		return string(b), "swap-bytes"
	case 10:
		// change a bracket into another one
		br := "()[]{}<>\"'"
		for tries := 0; tries < 8 && len(b) > 0; tries++ {
			p := r.Intn(len(b))
			if strings.IndexByte(br, b[p]) >= 0 {
				b[p] = br[r.Intn(len(br))]
				break
			}
		}
		return string(b), "bracket-swap"
	}
	// repeat a chunk many times
	if len(b) > 0 {
		p := r.Intn(len(b))
		n := 1 + r.Intn(min(6, len(b)-p))
		return string(b[:p]) + strings.Repeat(string(b[p:p+n]), 2+r.Intn(40)) + string(b[p+n:]), "repeat-chunk"
	}
	return s, "repeat-chunk"
}

func (g *c10Gen) caseByteMut(r *mon.Rand) []c10Shot {
	kind := mon.Pick(r, c10AllKinds)
	seed := g.randSeed(r, kind)
	other := g.randSeed(r, mon.Pick(r, c10AllKinds)).Doc
	s := seed.Doc
	if len(s) > 8000 {
		s = s[:8000]
	}
	var shots []c10Shot
	for i := 0; i < 8; i++ {
		m := s
		var classes []string
		for k := 1 + r.Intn(3); k > 0; k-- {
			var c string
			m, c = c10Mutate(r, m, other)
			classes = append(classes, c)
		}
		class := "byte-mut:" + classes[0]
		targets := c10KindTargets[kind]
		if r.P(0.2) {
			targets = []string{mon.Pick(r, c10AllTargets)}
			class = "byte-mut:cross-target"
		}
		for _, t := range targets {
			shots = append(shots, c10Shot{Target: t, In: []byte(m), Class: class})
		}
	}
	return shots
}

// ---------------------------------------------------------------------------------------
// random-bytes: arbitrary short byte strings (incl. invalid UTF-8) and token soups, to every decoder

func (g *c10Gen) caseRandomBytes(r *mon.Rand) []c10Shot {
	var in []byte
	class := ""
	switch r.Intn(5) {
	case 0:
		n := r.Intn(48)
		in = make([]byte, n)
		for i := range in {
			in[i] = byte(r.Intn(256))
		}
		class = "random-bytes:uniform"
	case 1:
		n := r.Intn(24)
		var sb strings.Builder
		for i := 0; i < n; i++ {
			sb.WriteString(mon.Pick(r, c10CedarDict))
			if r.P(0.6) {
				sb.WriteByte(' ')
			}
		}
		in = []byte(sb.String())
		class = "random-bytes:cedar-token-soup"
	case 2:
		n := r.Intn(24)
		var sb strings.Builder
		for i := 0; i < n; i++ {
			sb.WriteString(mon.Pick(r, c10SchemaDict))
			if r.P(0.6) {
				sb.WriteByte(' ')
			}
		}
		in = []byte(sb.String())
		class = "random-bytes:schema-token-soup"
	case 3:
		toks := []string{"{", "}", "[", "]", ":", ",", "null", "true", "false", "0", "-1", "1.5", "1e999", `""`, `"a"`, `"type"`, `"id"`, `"__entity"`, `"__extn"`, `"fn"`, `"arg"`, `"ip"`,
			`"Value"`, `"Var"`, `"left"`, `"right"`, `"Record"`, `"Set"`, `"op"`, `"effect"`, `"permit"`, `"conditions"`, `"kind"`, `"body"`, `"uid"`, `"parents"`, `"attrs"`, `"tags"`,
			`"entityTypes"`, `"actions"`, `"commonTypes"`, `"shape"`, `"element"`, `"attributes"`, `"staticPolicies"`, `"Wildcard"`, `"Literal"`, " ", "\n"}
		n := r.Intn(30)
		var sb strings.Builder
		for i := 0; i < n; i++ {
			sb.WriteString(mon.Pick(r, toks))
		}
		in = []byte(sb.String())
		class = "random-bytes:json-token-soup"
	default:
		n := r.Intn(40)
		al := "\"\\{}[]():;,.@<>=!&|+-*/ \n\tabcEnu019_\x00\xff\xc3\xa9\xf0\x9f"
		in = make([]byte, n)
		for i := range in {
			in[i] = al[r.Intn(len(al))]
		}
		class = "random-bytes:punctuation-alphabet"
	}
	shots := make([]c10Shot, 0, len(c10AllTargets))
	for _, t := range c10AllTargets {
		shots = append(shots, c10Shot{Target: t, In: in, Class: class})
	}
	return shots
}

// ---------------------------------------------------------------------------------------
// valid-gen: corpus documents and generated valid documents, unmodified: the accepted path
// (decode, then every encoder, Authorize, Resolve)

func (g *c10Gen) caseValid(r *mon.Rand) []c10Shot {
	kind := mon.Pick(r, c10AllKinds)
	seed := g.randSeed(r, kind)
	var shots []c10Shot
	for _, t := range c10KindTargets[kind] {
		shots = append(shots, c10Shot{Target: t, In: []byte(seed.Doc), Class: "valid-gen:" + kind})
	}
	return shots
}

// ---------------------------------------------------------------------------------------
// directed shapes

func c10Directed() []c10Shot {
	var out []c10Shot
	add := func(target, class, in string) {
		out = append(out, c10Shot{Target: target, In: []byte(in), Class: "directed:" + class})
	}
	wrapBody := func(body string) string {
		return `{"effect":"permit","principal":{"op":"All"},"action":{"op":"All"},"resource":{"op":"All"},"conditions":[{"kind":"when","body":` + body + `}]}`
	}
	pol := func(class, body string) {
		p := wrapBody(body)
		add("policy.json", class, p)
		add("policyset.json", class, `{"staticPolicies":{"p":`+p+`}}`)
	}
	// extension functions and methods with 0..3 arguments of several kinds
	names := make([]string, 0, len(model.ExtArity))
	for k := range model.ExtArity {
		names = append(names, k)
	}
	sort.Strings(names)
	argKinds := []string{`{"Value":"1.0"}`, `{"Value":1}`, `{"Var":"context"}`, `{"decimal":[{"Value":"1.0"}]}`, `{"Value":{"__extn":{"fn":"ip","arg":"1.2.3.4"}}}`, `null`, `{}`}
	for _, n := range append(names, "unknownFn", "", "Value2", "error") {
		for cnt := 0; cnt <= 3; cnt++ {
			for _, ak := range argKinds {
				if cnt == 0 && ak != argKinds[0] {
					continue
				}
				args := make([]string, cnt)
				for i := range args {
					args[i] = ak
				}
				pol("ext-call-arity", `{`+c10Q(n)+`:[`+strings.Join(args, ",")+`]}`)
			}
		}
		pol("ext-call-shape", `{`+c10Q(n)+`:null}`)
		pol("ext-call-shape", `{`+c10Q(n)+`:{}}`)
		pol("ext-call-shape", `{`+c10Q(n)+`:[[]]}`)
	}
	// every operator key with degenerate payloads
	keys := []string{"Value", "Var", "Slot", "Unknown", "!", "neg", "isEmpty", "==", "!=", "in", "<", "<=", ">", ">=", "&&", "||", "+", "-", "*", "contains", "containsAll", "containsAny",
		"getTag", "hasTag", ".", "has", "is", "like", "if-then-else", "Set", "Record"}
	payloads := []string{`null`, `{}`, `[]`, `""`, `0`, `true`, `{"left":null}`, `{"left":{},"right":{}}`, `{"arg":null}`, `{"left":{"Value":1}}`, `{"left":{"Value":1},"right":null}`,
		`{"left":{"Value":1},"attr":null}`, `{"left":{"Value":1},"entity_type":null,"in":null}`, `{"left":{"Value":"a"},"pattern":null}`, `{"left":{"Value":"a"},"pattern":[]}`,
		`{"left":{"Value":"a"},"pattern":[null]}`, `{"left":{"Value":"a"},"pattern":[{"Literal":null}]}`, `{"left":{"Value":"a"},"pattern":[{}]}`, `{"if":{"Value":true}}`,
		`{"a":null}`, `[null]`, `{"a":{}}`, `[{}]`, `{"__entity":null}`, `{"__extn":null}`, `{"__entity":{}}`, `{"__extn":{}}`, `{"__extn":{"fn":"ip"}}`, `{"__extn":{"fn":"decimal","arg":null}}`,
		`[[null]]`, `{"a":[null]}`, `{"a":{"b":null}}`}
	for _, k := range keys {
		for _, p := range payloads {
			pol("operator-degenerate-payload", `{`+c10Q(k)+`:`+p+`}`)
		}
	}
	pol("two-operator-keys", `{"Value":1,"Var":"principal"}`)
	pol("two-operator-keys", `{"lessThan":[],"greaterThan":[]}`)
	pol("two-operator-keys", `{"Value":1,"lessThan":[]}`)
	pol("empty-node", `{}`)
	// scopes
	scopes := []string{`null`, `{}`, `{"op":"All"}`, `{"op":"=="}`, `{"op":"==","entity":null}`, `{"op":"==","entity":{}}`, `{"op":"in"}`, `{"op":"in","entities":null}`, `{"op":"in","entities":[null]}`,
		`{"op":"in","entities":[]}`, `{"op":"in","entity":{"type":"A","id":"a"},"entities":[{"type":"A","id":"a"}]}`, `{"op":"is"}`, `{"op":"is","entity_type":null}`, `{"op":"is","in":null}`, `{"op":"is","in":{}}`,
		`{"op":"is","entity_type":"A","in":{"entity":null}}`, `{"op":"is","entity_type":"","in":{"entity":{"type":"","id":""}}}`, `{"op":"==","slot":"?principal"}`, `{"op":"All","entity":{"type":"A","id":"a"}}`,
		`{"op":""}`, `{"op":null}`, `{"op":"==","entity":{"__entity":{"type":"A","id":"a"}}}`, `[]`, `""`}
	for _, which := range []string{"principal", "action", "resource"} {
		for _, sc := range scopes {
			parts := map[string]string{"principal": `{"op":"All"}`, "action": `{"op":"All"}`, "resource": `{"op":"All"}`}
			parts[which] = sc
			p := `{"effect":"forbid","principal":` + parts["principal"] + `,"action":` + parts["action"] + `,"resource":` + parts["resource"] + `,"conditions":[]}`
			add("policy.json", "scope-shape", p)
			add("policyset.json", "scope-shape", `{"staticPolicies":{"p":`+p+`}}`)
		}
	}
	for _, p := range []string{`null`, `{}`, `[]`, `{"effect":null}`, `{"effect":"permit"}`, `{"effect":"permit","conditions":null}`, `{"effect":"permit","conditions":[null]}`, `{"effect":"permit","conditions":[{}]}`,
		`{"effect":"permit","principal":{"op":"All"},"action":{"op":"All"},"resource":{"op":"All"},"conditions":[{"kind":"when"}]}`,
		`{"effect":"permit","principal":{"op":"All"},"action":{"op":"All"},"resource":{"op":"All"},"conditions":[{"kind":"when","body":null}]}`,
		`{"effect":"permit","principal":{"op":"All"},"action":{"op":"All"},"resource":{"op":"All"},"conditions":[{"body":{"Value":true}}]}`,
		`{"effect":"permit","principal":{"op":"All"},"action":{"op":"All"},"resource":{"op":"All"},"annotations":null}`,
		`{"effect":"permit","principal":{"op":"All"},"action":{"op":"All"},"resource":{"op":"All"},"annotations":{"":null}}`,
		`{"effect":"permit","principal":{"op":"All"},"action":{"op":"All"},"resource":{"op":"All"},"annotations":{"a b":"", "if":"x"}}`} {
		add("policy.json", "policy-shape", p)
		add("policyset.json", "policy-shape", `{"staticPolicies":{"p":`+p+`}}`)
	}
	for _, p := range []string{`null`, `{}`, `[]`, `{"staticPolicies":null}`, `{"staticPolicies":{}}`, `{"staticPolicies":{"a":null}}`, `{"staticPolicies":{"":{}}}`, `{"staticPolicies":[]}`,
		`{"staticPolicies":{"a":null,"b":null}}`, `{"templates":{},"templateLinks":[]}`, `{"staticPolicies":{"a":[]}}`} {
		add("policyset.json", "policyset-shape", p)
	}
	// entities
	for _, e := range []string{`null`, `{}`, `[]`, `{"uid":null}`, `{"uid":{"type":"A","id":"a"}}`, `{"uid":{"type":"A","id":"a"},"parents":null,"attrs":null,"tags":null}`,
		`{"uid":{"type":"A","id":"a"},"parents":[null]}`, `{"uid":{"type":"A","id":"a"},"parents":[{}]}`, `{"uid":{"type":"A","id":"a"},"attrs":{"a":null}}`, `{"uid":{"type":"A","id":"a"},"attrs":[]}`,
		`{"uid":{"type":"A","id":"a"},"tags":{"a":[null]}}`, `{"uid":{"__entity":null}}`, `{"uid":{"__entity":{}}}`, `{"uid":{"type":null,"id":null}}`, `{"uid":"A::\"a\""}`,
		`{"uid":{"type":"A","id":"a"},"parents":[{"type":"A","id":"a"}],"attrs":{"self":{"__entity":{"type":"A","id":"a"}}}}`, `{"uid":{"type":"","id":""},"parents":[],"attrs":{"":""},"tags":{"":""}}`} {
		add("entity.json", "entity-shape", e)
		add("entitymap.json", "entity-shape", `[`+e+`]`)
		add("entitymap.json", "entity-shape", `[`+e+`,`+e+`]`)
	}
	for _, e := range []string{`null`, `{}`, `[null]`, `[[]]`, `""`, `0`} {
		add("entitymap.json", "entitymap-shape", e)
	}
	// values and typed values
	vals := []string{`null`, `{}`, `[]`, `""`, `0`, `-0`, `1.0`, `1e2`, `9223372036854775807`, `9223372036854775808`, `-9223372036854775808`, `-9223372036854775809`, `true`, `[null]`, `{"a":null}`,
		`{"__entity":null}`, `{"__entity":{}}`, `{"__entity":{"type":"A"}}`, `{"__entity":{"type":null,"id":null}}`, `{"__entity":{"type":"A","id":"a"},"x":1}`, `{"__extn":null}`, `{"__extn":{}}`,
		`{"__extn":{"fn":"ip"}}`, `{"__extn":{"fn":"ip","arg":null}}`, `{"__extn":{"fn":"","arg":""}}`, `{"__extn":{"fn":"decimal","arg":""}}`, `{"__extn":{"fn":"datetime","arg":""}}`,
		`{"__extn":{"fn":"duration","arg":""}}`, `{"__extn":{"fn":"duration","arg":"-"}}`, `{"__extn":{"fn":"decimal","arg":"-"}}`, `{"__extn":{"fn":"decimal","arg":"."}}`, `{"__extn":{"fn":"decimal","arg":"-."}}`,
		`{"__extn":{"fn":"ip","arg":"/"}}`, `{"__extn":{"fn":"ip","arg":"::/"}}`, `{"__extn":{"fn":"ip","arg":"1.2.3.4/"}}`, `{"__extn":{"fn":"ip","arg":"1.2.3.4/-1"}}`, `{"__extn":{"fn":"ip","arg":"1.2.3.4/99999999999999999999"}}`,
		`{"__extn":{"fn":"datetime","arg":"-"}}`, `{"__extn":{"fn":"datetime","arg":"2024-01-01T"}}`, `{"__extn":{"fn":"datetime","arg":"2024-01-01T00:00:00"}}`, `{"__extn":{"fn":"datetime","arg":"2024-01-01T00:00:00."}}`,
		`{"__extn":{"fn":"datetime","arg":"2024-01-01T00:00:00.000+"}}`, `{"__extn":{"fn":"datetime","arg":"2024-01-01T00:00:00Z+0000"}}`, `{"__extn":{"fn":"datetime","arg":"+"}}`, `{"__extn":{"fn":"datetime","arg":"2024-13-41"}}`,
		`{"__extn":{"fn":"duration","arg":"1"}}`, `{"__extn":{"fn":"duration","arg":"d"}}`, `{"__extn":{"fn":"duration","arg":"1d1d"}}`, `{"__extn":{"fn":"duration","arg":"99999999999999999999d"}}`, `{"__extn":{"fn":"duration","arg":"1m1h"}}`,
		`{"__extn":[]}`, `{"__extn":""}`, `{"__entity":[]}`, `{"__entity":""}`, `{"fn":"ip","arg":"1.2.3.4"}`, `{"fn":null,"arg":null}`, `{"fn":"ip"}`, `{"arg":"1.2.3.4"}`, `{"type":"A","id":"a"}`, `{"type":null}`,
		`"`, `"\ud800"`, `"\u0000"`, `[1,1,1]`, `[[],[]]`, `{"a":1,"a":2}`, `{"":{"":{"":[]}}}`, ` 1`, `1 `, `1 2`, `[1,]`, `{"a":1,}`, "\xef\xbb\xbf1", `nul`, `tru`, `-`, `[`, `{`, `{"a"`, `{"a":`, ``}
	typed := []string{"value.json", "record.json", "set.json", "decimal.json", "datetime.json", "duration.json", "ipaddr.json", "entityuid.json", "pattern.json"}
	for _, v := range vals {
		for _, t := range typed {
			add(t, "value-shape", v)
		}
		pol("value-in-policy", `{"Value":`+v+`}`)
	}
	for _, p := range []string{`[]`, `[null]`, `["Wildcard"]`, `["wildcard"]`, `[{"Literal":null}]`, `[{"Literal":1}]`, `[{"Literal":"a","x":1}]`, `[{}]`, `[[]]`, `[1]`, `["Wildcard","Wildcard"]`, `[{"Literal":""}]`,
		`[{"Literal":"*"}]`, `[{"Literal":"\\"}]`, `[{"literal":"a"}]`, `null`, `{}`, `"Wildcard"`} {
		add("pattern.json", "pattern-shape", p)
		pol("pattern-in-policy", `{"like":{"left":{"Value":"a"},"pattern":`+p+`}}`)
	}
	// entity uid text
	for _, u := range []string{``, `::`, `::""`, `A`, `A::`, `A::"`, `A::""`, `A::"a`, `A::a"`, `A::"a""`, `A::"\"`, `A::"\\"`, `A::"\u{}"`, `A::"\u{110000}"`, `A::"\u{d800}"`, `A::"\x"`, `A::"\xZZ"`, `A::"\x7"`,
		`A::B::"a"`, `::A::"a"`, `A::::"a"`, ` A::"a"`, `A::"a" `, `A :: "a"`, `"a"::"a"`, `A::"a"::"b"`, "A::\"\xff\"", "A::\"\x00\"", `A::"\u{`, `A::"\u`, `A::"\`, `1::"a"`, `if::"a"`, `A::"\*"`, `A::"\u{0000000000041}"`} {
		add("entityuid.text", "uid-shape", u)
	}
	// policy text oddities
	for _, t := range []string{``, `;`, `permit`, `permit(`, `permit()`, `permit(principal,action,resource)`, `permit(principal,action,resource);`, `permit(principal,action,resource) when`, `permit(principal,action,resource) when {`,
		`permit(principal,action,resource) when {}`, `permit(principal,action,resource) when {};`, `permit(principal,action,resource) when { ( };`, `permit(principal,action,resource) when { ) };`,
		`permit(principal,action,resource) when { [ };`, `permit(principal,action,resource) when { { };`, `permit(principal,action,resource) when { a.b( };`, `permit(principal,action,resource) when { 1.contains() };`,
		`permit(principal,action,resource) when { 1.contains(1,2) };`, `permit(principal,action,resource) when { 1.isEmpty(1) };`, `permit(principal,action,resource) when { lessThan() };`, `permit(principal,action,resource) when { lessThan(1) };`,
		`permit(principal,action,resource) when { 1.lessThan() };`, `permit(principal,action,resource) when { ip() };`, `permit(principal,action,resource) when { ip(1,2) };`, `permit(principal,action,resource) when { 1.ip() };`,
		`permit(principal,action,resource) when { decimal("1.0").decimal() };`, `permit(principal,action,resource) when { context.lessThan };`, `permit(principal,action,resource) when { context.hasTag() };`,
		`permit(principal,action,resource) when { context.getTag(1,2) };`, `permit(principal,action,resource) when { principal is };`, `permit(principal,action,resource) when { principal is A in };`,
		`permit(principal,action,resource) when { principal has };`, `permit(principal,action,resource) when { principal has a. };`, `permit(principal,action,resource) when { principal has "a".b };`,
		`permit(principal,action,resource) when { principal like };`, `permit(principal,action,resource) when { "a" like "\*\" };`, `permit(principal,action,resource) when { "a" like "*\u{}" };`,
		`permit(principal,action,resource) when { if };`, `permit(principal,action,resource) when { if true then };`, `permit(principal,action,resource) when { - };`, `permit(principal,action,resource) when { ---------9223372036854775808 };`,
		`permit(principal,action,resource) when { -9223372036854775808 };`, `permit(principal,action,resource) when { -9223372036854775809 };`, `permit(principal,action,resource) when { 9223372036854775808 };`,
		`permit(principal,action,resource) when { !!!!!true };`, `permit(principal,action,resource) when { A:: };`, `permit(principal,action,resource) when { A::B };`, `permit(principal,action,resource) when { A::"a"::"b" };`,
		`permit(principal,action,resource) when { A::B::ip("") };`, `permit(principal,action,resource) when { {a:1,a:2} };`, `permit(principal,action,resource) when { {"":1}[""] };`, `permit(principal,action,resource) when { principal[""] };`,
		`permit(principal,action,resource) when { principal[1] };`, `permit(principal,action,resource) when { principal[ };`, `permit(principal == ,action,resource);`, `permit(principal in ,action,resource);`,
		`permit(principal is ,action,resource);`, `permit(principal is A in ,action,resource);`, `permit(principal,action in [,resource);`, `permit(principal,action in [A::"a",,],resource);`, `permit(principal,action == [A::"a"],resource);`,
		`permit(principal,action is A,resource);`, `permit(principal == ?principal,action,resource);`, `permit(resource,action,principal);`, `permit(principal,action,resource,);`, `permit(principal,,resource);`,
		`@`, `@a`, `@a(`, `@a()`, `@a("")`, `@a("") @a("") permit(principal,action,resource);`, `@if("") permit(principal,action,resource);`, `@a(1) permit(principal,action,resource);`, `@a permit(principal,action,resource);`,
		`/*`, `/* */`, `//`, `"`, `"\`, `'`, `permit(principal,action,resource) when { " };`, `permit(principal,action,resource) when { "\u{` + "}" + `" };`, "permit(principal,action,resource) when { \"\xff\" };",
		"\xef\xbb\xbfpermit(principal,action,resource);", "permit(principal,action,resource);\x00", "permit(principal,action,resource) when { \x00 };", `permit(principal,action,resource) when { 1 } when { 2 } unless { 3 };`} {
		for _, tg := range c10TextPolicyTargets {
			add(tg, "policy-text-shape", t)
		}
	}
	// schema text and JSON oddities
	for _, t := range []string{``, `namespace`, `namespace {`, `namespace A`, `namespace A {`, `namespace A {}`, `namespace A::B { entity E; }`, `namespace A { namespace B {} }`, `entity`, `entity ;`, `entity E`, `entity E;`, `entity E, ;`,
		`entity E in`, `entity E in [`, `entity E in [];`, `entity E in E;`, `entity E = ;`, `entity E = {`, `entity E {};`, `entity E = {} tags`, `entity E tags;`, `entity E tags Set<;`, `entity E enum`, `entity E enum [];`, `entity E enum [""];`, `entity E enum ["a","a"];`,
		`entity E enum [a];`, `action`, `action ;`, `action a`, `action a;`, `action "";`, `action a in`, `action a in [`, `action a in [];`, `action a in a;`, `action a in [A::"a"];`, `action a in A::B::"a";`, `action a appliesTo`, `action a appliesTo {`,
		`action a appliesTo {};`, `action a appliesTo { principal };`, `action a appliesTo { principal: };`, `action a appliesTo { principal: [] };`, `action a appliesTo { principal: [], resource: [] };`, `action a appliesTo { context: };`,
		`action a appliesTo { context: {}, context: {} };`, `action a appliesTo { principal: E, principal: E };`, `action a appliesTo { context: Set<Long> };`, `type`, `type T`, `type T =`, `type T = ;`, `type T = T;`, `type Long = Long;`, `type T = Set;`,
		`type T = Set<`, `type T = Set<>;`, `type T = Set<Long;`, `type T = {`, `type T = {a};`, `type T = {a:};`, `type T = {a?:Long,a:Long};`, `type T = {"":Long};`, `type T = {a:Long,,};`, `type T = A::;`, `type T = ::A;`, `type T = __cedar::;`,
		`type T = __cedar::Nope;`, `@`, `@a`, `@a(`, `@a("`, `@a("") @a("") entity E;`, `@a(1) entity E;`, `entity E; entity E;`, `type A = B; type B = A;`, `entity E in [E];`, `entity E = { e: E };`, `type T = Set<T>;`, `type T = { t: T };`,
		`action a in [a];`, `action a in [b]; action b in [a];`, `namespace A { entity E; } namespace A { entity E; }`, `/*`, `//`, `"`, "\x00", "\xff", "entity \xc3\x28;", `entity E = { "\u{}": Long };`, `entity E = { "\u{110000}": Long };`} {
		add("schema.text", "schema-text-shape", t)
	}
	for _, t := range []string{`null`, `{}`, `[]`, `{"":null}`, `{"":{}}`, `{"":{"entityTypes":null,"actions":null}}`, `{"":{"entityTypes":{"E":null},"actions":{"a":null}}}`, `{"":{"entityTypes":{"E":{"shape":null,"tags":null,"memberOfTypes":null,"enum":null}},"actions":{}}}`,
		`{"":{"entityTypes":{"E":{"shape":{}}},"actions":{}}}`, `{"":{"entityTypes":{"E":{"shape":{"type":"Long"}}},"actions":{}}}`, `{"":{"entityTypes":{"E":{"shape":{"type":"Record","attributes":null}}},"actions":{}}}`,
		`{"":{"entityTypes":{"E":{"shape":{"type":"Record","attributes":{"a":null}}}},"actions":{}}}`, `{"":{"entityTypes":{"E":{"shape":{"type":"Record","attributes":{"a":{}}}}},"actions":{}}}`,
		`{"":{"entityTypes":{"E":{"shape":{"type":"Record","attributes":{"a":{"type":"Set"}}}}},"actions":{}}}`, `{"":{"entityTypes":{"E":{"shape":{"type":"Record","attributes":{"a":{"type":"Set","element":null}}}}},"actions":{}}}`,
		`{"":{"entityTypes":{"E":{"shape":{"type":"Record","attributes":{"a":{"type":"Set","element":{}}}}}},"actions":{}}}`, `{"":{"entityTypes":{"E":{"shape":{"type":"Record","attributes":{"a":{"type":"Entity"}}}}},"actions":{}}}`,
		`{"":{"entityTypes":{"E":{"shape":{"type":"Record","attributes":{"a":{"type":"Extension"}}}}},"actions":{}}}`, `{"":{"entityTypes":{"E":{"shape":{"type":"Record","attributes":{"a":{"type":"EntityOrCommon"}}}}},"actions":{}}}`,
		`{"":{"entityTypes":{"E":{"shape":{"type":"Record","attributes":{"a":{"type":""}}}}},"actions":{}}}`, `{"":{"entityTypes":{"E":{"tags":{}}},"actions":{}}}`, `{"":{"entityTypes":{"E":{"tags":{"type":"Set"}}},"actions":{}}}`,
		`{"":{"entityTypes":{"E":{"enum":[]}},"actions":{}}}`, `{"":{"entityTypes":{"E":{"enum":[""]}},"actions":{}}}`, `{"":{"entityTypes":{"E":{"enum":["a"],"shape":{"type":"Record","attributes":{}}}},"actions":{}}}`,
		`{"":{"entityTypes":{"E":{"memberOfTypes":[""]}},"actions":{}}}`, `{"":{"entityTypes":{"E":{"memberOfTypes":["E"]}},"actions":{}}}`, `{"":{"entityTypes":{"":{}},"actions":{"":{}}}}`,
		`{"":{"entityTypes":{},"actions":{"a":{"appliesTo":null,"memberOf":null}}}}`, `{"":{"entityTypes":{},"actions":{"a":{"appliesTo":{}}}}}`, `{"":{"entityTypes":{},"actions":{"a":{"appliesTo":{"principalTypes":null,"resourceTypes":null,"context":null}}}}}`,
		`{"":{"entityTypes":{},"actions":{"a":{"appliesTo":{"principalTypes":[""],"resourceTypes":[""],"context":{}}}}}}`, `{"":{"entityTypes":{},"actions":{"a":{"appliesTo":{"context":{"type":"Long"}}}}}}`,
		`{"":{"entityTypes":{},"actions":{"a":{"memberOf":[null]}}}}`, `{"":{"entityTypes":{},"actions":{"a":{"memberOf":[{}]}}}}`, `{"":{"entityTypes":{},"actions":{"a":{"memberOf":[{"id":"a"}]}}}}`,
		`{"":{"entityTypes":{},"actions":{"a":{"memberOf":[{"id":"b","type":""}]},"b":{"memberOf":[{"id":"a"}]}}}}`, `{"":{"entityTypes":{},"actions":{},"commonTypes":null}}`, `{"":{"entityTypes":{},"actions":{},"commonTypes":{"T":null}}}`,
		`{"":{"entityTypes":{},"actions":{},"commonTypes":{"T":{}}}}`, `{"":{"entityTypes":{},"actions":{},"commonTypes":{"T":{"type":"T"}}}}`, `{"":{"entityTypes":{},"actions":{},"commonTypes":{"T":{"type":"Set","element":{"type":"T"}}}}}`,
		`{"":{"entityTypes":{},"actions":{},"commonTypes":{"A":{"type":"B"},"B":{"type":"A"}}}}`, `{"":{"entityTypes":{},"actions":{},"commonTypes":{"":{"type":""}}}}`, `{"":{"entityTypes":{},"actions":{},"commonTypes":{"Long":{"type":"Long"}}}}`,
		`{"":{"entityTypes":{},"actions":{},"annotations":null}}`, `{"":{"entityTypes":{},"actions":{},"annotations":{"":null}}}`, `{"A::":{"entityTypes":{},"actions":{}}}`, `{"::":{"entityTypes":{},"actions":{}}}`, `{"A":{"entityTypes":{},"actions":{}},"A::B":{"entityTypes":{"A":{}},"actions":{}}}`,
		`{"":{"entityTypes":{"E":{}},"actions":{},"unknown":1}}`, `{"":[]}`, `{"":""}`} {
		add("schema.json", "schema-json-shape", t)
	}
	return out
}

// c10Pool is the seed-document pool of C10: a fixed prefix (tar order) of the corpus
// tarballs shipped with the repository plus documents derived from them. It is a pure
// function of the tarballs and the tier, so parent and children rebuild the same pool.
type c10Pool struct {
	Cedar          []string // policy documents (text)
	SchemaText     []string
	EntitiesJSON   []string // entity-map documents
	TestJSON       []string // corpus test descriptions (generic JSON objects -> value/record seeds)
	SchemaJSON     []string
	ValidationJSON []string
	PolicyJSON     []string // derived: corpus policies re-encoded as JSON by cedar-go
	PolicySetJSON  []string
	SchemaJSONConv []string // derived: corpus text schemas converted to JSON by cedar-go
}

const c10MaxSeedDoc = 24 << 10

func c10ReadTar(path string, want map[string]*[]string, perKind int) {
	f, err := os.Open(path)
	if err != nil {
		return
	}
	defer f.Close()
	gz, err := gzip.NewReader(f)
	if err != nil {
		return
	}
	tr := tar.NewReader(gz)
	for {
		full := true
		for _, dst := range want {
			if len(*dst) < perKind {
				full = false
			}
		}
		if full {
			return
		}
		h, err := tr.Next()
		if err != nil {
			return
		}
		if h.Typeflag != tar.TypeReg || h.Size == 0 || h.Size > c10MaxSeedDoc {
			continue
		}
		name := h.Name
		if i := strings.LastIndex(name, "/"); i >= 0 {
			name = name[i+1:]
		}
		if strings.HasPrefix(name, "._") {
			continue
		}
		var dst *[]string
		// longest suffix first
		for _, suf := range []string{".cedarschema.json", ".validation.json", ".entities.json", ".cedarschema", ".cedar", ".json"} {
			if strings.HasSuffix(name, suf) {
				dst = want[suf]
				break
			}
		}
		if dst == nil || len(*dst) >= perKind {
			continue
		}
		b, err := io.ReadAll(tr)
		if err != nil {
			return
		}
		// valid UTF-8 only, so that the pool survives the JSON file handed to the children unchanged
		*dst = append(*dst, strings.ToValidUTF8(string(b), "\uFFFD"))
	}
}

func c10LoadPool(perKind int) *c10Pool {
	p := &c10Pool{}
	c10ReadTar("/repo/corpus-tests.tar.gz", map[string]*[]string{
		".cedar": &p.Cedar, ".cedarschema": &p.SchemaText, ".entities.json": &p.EntitiesJSON, ".json": &p.TestJSON}, perKind)
	c10ReadTar("/repo/corpus-tests-json-schemas.tar.gz", map[string]*[]string{".cedarschema.json": &p.SchemaJSON}, perKind)
	c10ReadTar("/repo/corpus-tests-validation.tar.gz", map[string]*[]string{".validation.json": &p.ValidationJSON}, perKind/4+1)
	// derived documents; a panic here is not a verdict (the same texts are fed to the
	// decoders under observation in the valid-gen stream), the document is just skipped
	for _, doc := range p.Cedar {
		func() {
			defer func() { _ = recover() }()
			pl, err := cedar.NewPolicyListFromBytes("", []byte(doc))
			if err != nil {
				return
			}
			for i, pol := range pl {
				if i >= 2 {
					break
				}
				if b, err := pol.MarshalJSON(); err == nil && len(b) <= c10MaxSeedDoc {
					p.PolicyJSON = append(p.PolicyJSON, string(b))
				}
			}
			ps, err := cedar.NewPolicySetFromBytes("", []byte(doc))
			if err == nil {
				if b, err := ps.MarshalJSON(); err == nil && len(b) <= c10MaxSeedDoc {
					p.PolicySetJSON = append(p.PolicySetJSON, string(b))
				}
			}
		}()
	}
	for i, doc := range p.SchemaText {
		if i%4 != 0 {
			continue
		}
		func() {
			defer func() { _ = recover() }()
			var s schema.Schema
			if err := s.UnmarshalCedar([]byte(doc)); err != nil {
				return
			}
			if b, err := s.MarshalJSON(); err == nil && len(b) <= c10MaxSeedDoc {
				p.SchemaJSONConv = append(p.SchemaJSONConv, string(b))
			}
		}()
	}
	return p
}

// ---------------------------------------------------------------------------------------
// generic ordered JSON tree (keeps key order, duplicate keys and number spelling)

type c10J struct {
	kind byte // 'o' object, 'a' array, 's' string, 'n' number, 't' true, 'f' false, 'z' null
	keys []string
	kids []*c10J
	s    string // string value or number text
	id   int    // preorder position
}

func c10ParseJSON(doc string) (*c10J, bool) {
	dec := json.NewDecoder(strings.NewReader(doc))
	dec.UseNumber()
	n, ok := c10ParseJ(dec)
	if !ok {
		return nil, false
	}
	if _, err := dec.Token(); err != io.EOF {
		return nil, false
	}
	id := 0
	var number func(*c10J)
	number = func(x *c10J) {
		x.id = id
		id++
		for _, k := range x.kids {
			number(k)
		}
	}
	number(n)
	return n, true
}

func c10ParseJ(dec *json.Decoder) (*c10J, bool) {
	tok, err := dec.Token()
	if err != nil {
		return nil, false
	}
	switch t := tok.(type) {
	case json.Delim:
		switch t {
		case '{':
			n := &c10J{kind: 'o'}
			for dec.More() {
				kt, err := dec.Token()
				if err != nil {
					return nil, false
				}
				k, _ := kt.(string)
				v, ok := c10ParseJ(dec)
				if !ok {
					return nil, false
				}
				n.keys = append(n.keys, k)
				n.kids = append(n.kids, v)
			}
			if _, err := dec.Token(); err != nil {
				return nil, false
			}
			return n, true
		case '[':
			n := &c10J{kind: 'a'}
			for dec.More() {
				v, ok := c10ParseJ(dec)
				if !ok {
					return nil, false
				}
				n.kids = append(n.kids, v)
			}
			if _, err := dec.Token(); err != nil {
				return nil, false
			}
			return n, true
		}
		return nil, false
	case string:
		return &c10J{kind: 's', s: t}, true
	case json.Number:
		return &c10J{kind: 'n', s: string(t)}, true
	case bool:
		if t {
			return &c10J{kind: 't'}, true
		}
		return &c10J{kind: 'f'}, true
	case nil:
		return &c10J{kind: 'z'}, true
	}
	return nil, false
}

func (n *c10J) count() int {
	c := 1
	for _, k := range n.kids {
		c += k.count()
	}
	return c
}

// c10JMut is one structural mutation: at node id do mode.
type c10JMut struct {
	id   int
	mode byte   // 'r' replace by text, 'd' delete from parent, 'u' duplicate in parent, 'k' add key to object / element to array
	text string // replacement / added member
}

func c10JQuote(b *bytes.Buffer, s string) {
	b.WriteByte('"')
	for i := 0; i < len(s); i++ {
		c := s[i]
		switch {
		case c == '"':
			b.WriteString(`\"`)
		case c == '\\':
			b.WriteString(`\\`)
		case c == '\n':
			b.WriteString(`\n`)
		case c == '\r':
			b.WriteString(`\r`)
		case c == '\t':
			b.WriteString(`\t`)
		case c < 0x20:
			b.WriteString(`\u00`)
			b.WriteByte("0123456789abcdef"[c>>4])
			b.WriteByte("0123456789abcdef"[c&15])
		default:
			b.WriteByte(c)
		}
	}
	b.WriteByte('"')
}

func c10Q(s string) string {
	var b bytes.Buffer
	c10JQuote(&b, s)
	return b.String()
}

func (n *c10J) emit(b *bytes.Buffer, m *c10JMut) {
	if m != nil && m.id == n.id && m.mode == 'r' {
		b.WriteString(m.text)
		return
	}
	switch n.kind {
	case 'o':
		b.WriteByte('{')
		first := true
		sep := func() {
			if !first {
				b.WriteByte(',')
			}
			first = false
		}
		for i, k := range n.kids {
			if m != nil && m.id == k.id && m.mode == 'd' {
				continue
			}
			reps := 1
			if m != nil && m.id == k.id && m.mode == 'u' {
				reps = 2
			}
			for ; reps > 0; reps-- {
				sep()
				c10JQuote(b, n.keys[i])
				b.WriteByte(':')
				k.emit(b, m)
			}
		}
		if m != nil && m.id == n.id && m.mode == 'k' {
			sep()
			b.WriteString(m.text)
		}
		b.WriteByte('}')
	case 'a':
		b.WriteByte('[')
		first := true
		sep := func() {
			if !first {
				b.WriteByte(',')
			}
			first = false
		}
		for _, k := range n.kids {
			if m != nil && m.id == k.id && m.mode == 'd' {
				continue
			}
			reps := 1
			if m != nil && m.id == k.id && m.mode == 'u' {
				reps = 2
			}
			for ; reps > 0; reps-- {
				sep()
				k.emit(b, m)
			}
		}
		if m != nil && m.id == n.id && m.mode == 'k' {
			sep()
			b.WriteString("null")
		}
		b.WriteByte(']')
	case 's':
		c10JQuote(b, n.s)
	case 'n':
		b.WriteString(n.s)
	case 't':
		b.WriteString("true")
	case 'f':
		b.WriteString("false")
	default:
		b.WriteString("null")
	}
}

func (n *c10J) render(m *c10JMut) string {
	var b bytes.Buffer
	n.emit(&b, m)
	return b.String()
}

// c10JReplacements are the atoms every node position is replaced by.
var c10JReplacements = []string{"null", "[]", "{}", `""`, "0", "true", "[null]", `{"a":null}`, `"x"`, "-1.5", "9223372036854775808", `[[]]`, `{"":{}}`}

// c10JWalk visits every node position (preorder) with its parent.
func c10JWalk(n *c10J, parent *c10J, fn func(n, parent *c10J)) {
	fn(n, parent)
	for _, k := range n.kids {
		c10JWalk(k, n, fn)
	}
}

// Independent JSON writers (policy JSON, value JSON, entity JSON) from the harness's own
// model representation. r may be nil (canonical spellings) or a PRNG choosing between the
// documented alternative spellings.

func c10Coin(r *mon.Rand) bool { return r != nil && r.Bool() }

func c10UIDImplicit(v model.Val) string {
	return `{"type":` + c10Q(v.T) + `,"id":` + c10Q(v.ID) + `}`
}

func c10ExtArg(v model.Val) (fn, arg string) {
	switch v.K {
	case model.KDecimal:
		return "decimal", model.PrintDecimal(v.I)
	case model.KDatetime:
		return "datetime", model.PrintDatetime(v.I)
	case model.KDuration:
		return "duration", model.PrintDuration(v.I)
	}
	return "ip", model.PrintIP(v.IP)
}

func c10ValueJSON(r *mon.Rand, v model.Val) string {
	switch v.K {
	case model.KBool:
		if v.B {
			return "true"
		}
		return "false"
	case model.KLong:
		return strconv.FormatInt(v.I, 10)
	case model.KString:
		return c10Q(v.S)
	case model.KEntity:
		return `{"__entity":` + c10UIDImplicit(v) + `}`
	case model.KSet:
		parts := make([]string, len(v.Elems))
		for i, e := range v.Elems {
			parts[i] = c10ValueJSON(r, e)
		}
		return "[" + strings.Join(parts, ",") + "]"
	case model.KRecord:
		parts := make([]string, len(v.Keys))
		for i, k := range v.Keys {
			parts[i] = c10Q(k) + ":" + c10ValueJSON(r, v.Vals[i])
		}
		return "{" + strings.Join(parts, ",") + "}"
	}
	fn, arg := c10ExtArg(v)
	return `{"__extn":{"fn":` + c10Q(fn) + `,"arg":` + c10Q(arg) + `}}`
}

var c10BinKey = map[model.Op]string{model.OAnd: "&&", model.OOr: "||", model.OAdd: "+", model.OSub: "-", model.OMul: "*",
	model.OEq: "==", model.ONe: "!=", model.OLt: "<", model.OLe: "<=", model.OGt: ">", model.OGe: ">=", model.OIn: "in",
	model.OContains: "contains", model.OContainsAll: "containsAll", model.OContainsAny: "containsAny",
	model.OHasTag: "hasTag", model.OGetTag: "getTag"}

func c10PatternJSON(p []model.PatElem) string {
	var parts []string
	for _, e := range p {
		if e.Wild {
			parts = append(parts, `"Wildcard"`)
		}
		if e.Lit != "" || !e.Wild {
			parts = append(parts, `{"Literal":`+c10Q(e.Lit)+`}`)
		}
	}
	return "[" + strings.Join(parts, ",") + "]"
}

func c10ExprJSON(r *mon.Rand, e *model.Expr) string {
	a := func(i int) string { return c10ExprJSON(r, e.Args[i]) }
	switch e.Op {
	case model.OLit:
		switch e.V.K {
		case model.KDecimal, model.KDatetime, model.KDuration, model.KIP:
			if !c10Coin(r) {
				fn, arg := c10ExtArg(e.V)
				return `{` + c10Q(fn) + `:[{"Value":` + c10Q(arg) + `}]}`
			}
		}
		return `{"Value":` + c10ValueJSON(r, e.V) + `}`
	case model.OVar:
		return `{"Var":` + c10Q(e.S) + `}`
	case model.ONot:
		return `{"!":{"arg":` + a(0) + `}}`
	case model.ONeg:
		return `{"neg":{"arg":` + a(0) + `}}`
	case model.OIsEmpty:
		return `{"isEmpty":{"arg":` + a(0) + `}}`
	case model.OIf:
		return `{"if-then-else":{"if":` + a(0) + `,"then":` + a(1) + `,"else":` + a(2) + `}}`
	case model.OHas:
		return `{"has":{"left":` + a(0) + `,"attr":` + c10Q(e.S) + `}}`
	case model.OAccess:
		return `{".":{"left":` + a(0) + `,"attr":` + c10Q(e.S) + `}}`
	case model.OLike:
		return `{"like":{"left":` + a(0) + `,"pattern":` + c10PatternJSON(e.Pat) + `}}`
	case model.OIs:
		return `{"is":{"left":` + a(0) + `,"entity_type":` + c10Q(e.S) + `}}`
	case model.OIsIn:
		return `{"is":{"left":` + a(0) + `,"entity_type":` + c10Q(e.S) + `,"in":` + a(1) + `}}`
	case model.OSet:
		parts := make([]string, len(e.Args))
		for i := range e.Args {
			parts[i] = a(i)
		}
		return `{"Set":[` + strings.Join(parts, ",") + `]}`
	case model.ORecord:
		parts := make([]string, len(e.Args))
		for i := range e.Args {
			parts[i] = c10Q(e.Keys[i]) + ":" + a(i)
		}
		return `{"Record":{` + strings.Join(parts, ",") + `}}`
	case model.OExt:
		parts := make([]string, len(e.Args))
		for i := range e.Args {
			parts[i] = a(i)
		}
		return `{` + c10Q(e.S) + `:[` + strings.Join(parts, ",") + `]}`
	}
	if k, ok := c10BinKey[e.Op]; ok {
		return `{` + c10Q(k) + `:{"left":` + a(0) + `,"right":` + a(1) + `}}`
	}
	return `{"Value":null}`
}

func c10ScopeJSON(s model.Scope) string {
	switch s.Kind {
	case model.ScEq:
		return `{"op":"==","entity":` + c10UIDImplicit(s.Ent) + `}`
	case model.ScIn:
		return `{"op":"in","entity":` + c10UIDImplicit(s.Ent) + `}`
	case model.ScInSet:
		parts := make([]string, len(s.Ents))
		for i, e := range s.Ents {
			parts[i] = c10UIDImplicit(e)
		}
		return `{"op":"in","entities":[` + strings.Join(parts, ",") + `]}`
	case model.ScIs:
		return `{"op":"is","entity_type":` + c10Q(s.Type) + `}`
	case model.ScIsIn:
		return `{"op":"is","entity_type":` + c10Q(s.Type) + `,"in":{"entity":` + c10UIDImplicit(s.Ent) + `}}`
	}
	return `{"op":"All"}`
}

func c10PolicyJSON(r *mon.Rand, p *model.Policy) string {
	var b bytes.Buffer
	eff := "forbid"
	if p.Permit {
		eff = "permit"
	}
	b.WriteString(`{"effect":"` + eff + `","principal":` + c10ScopeJSON(p.P) + `,"action":` + c10ScopeJSON(p.A) + `,"resource":` + c10ScopeJSON(p.R))
	b.WriteString(`,"conditions":[`)
	for i, c := range p.Conds {
		if i > 0 {
			b.WriteByte(',')
		}
		kind := "unless"
		if c.When {
			kind = "when"
		}
		b.WriteString(`{"kind":"` + kind + `","body":` + c10ExprJSON(r, c.Body) + `}`)
	}
	b.WriteString(`]`)
	if len(p.Annots) > 0 {
		b.WriteString(`,"annotations":{`)
		for i, a := range p.Annots {
			if i > 0 {
				b.WriteByte(',')
			}
			b.WriteString(c10Q(a.Key) + ":" + c10Q(a.Val))
		}
		b.WriteString(`}`)
	}
	b.WriteString(`}`)
	return b.String()
}

func c10PolicySetJSON(r *mon.Rand, ps []*model.Policy) string {
	parts := make([]string, len(ps))
	for i, p := range ps {
		parts[i] = c10Q(fmt.Sprintf("policy%d", i)) + ":" + c10PolicyJSON(r, p)
	}
	return `{"staticPolicies":{` + strings.Join(parts, ",") + `}}`
}

func c10EntityJSON(r *mon.Rand, e *model.Entity) string {
	ps := make([]string, len(e.Parents))
	for i, p := range e.Parents {
		if c10Coin(r) {
			ps[i] = `{"__entity":` + c10UIDImplicit(p) + `}`
		} else {
			ps[i] = c10UIDImplicit(p)
		}
	}
	attrs, tags := "{}", ""
	if e.Attrs.K == model.KRecord {
		attrs = c10ValueJSON(r, e.Attrs)
	}
	if e.Tags.K == model.KRecord && (len(e.Tags.Keys) > 0 || c10Coin(r)) {
		tags = `,"tags":` + c10ValueJSON(r, e.Tags)
	}
	return `{"uid":` + c10UIDImplicit(e.UID) + `,"parents":[` + strings.Join(ps, ",") + `],"attrs":` + attrs + tags + `}`
}

func c10EntityMapJSON(r *mon.Rand, st map[string]*model.Entity) string {
	keys := make([]string, 0, len(st))
	for k := range st {
		keys = append(keys, k)
	}
	sort.Strings(keys)
	parts := make([]string, len(keys))
	for i, k := range keys {
		parts[i] = c10EntityJSON(r, st[k])
	}
	return "[" + strings.Join(parts, ",") + "]"
}

// c10AllOpsExprs: one small expression per node kind / extension function.
func c10AllOpsExprs() []*model.Expr {
	L := model.Lit
	one, two := L(model.Long(1)), L(model.Long(2))
	tr := L(model.Bool(true))
	pr := model.Var("principal")
	ctx := model.Var("context")
	set := model.SetE(one, two)
	dec := L(model.Decimal(12345))
	ip := L(gen.IPs[0])
	dt := L(model.Datetime(1700000000000))
	du := L(model.Duration(90061001))
	out := []*model.Expr{
		tr, one, L(model.Str("s\"q\\\n")), L(model.Ent("NS::T", "a b")), L(model.Set(model.Long(1), model.Str("x"))),
		L(model.Rec("a", model.Long(1), "b c", model.Set())), dec, ip, dt, du,
		pr, model.Var("action"), model.Var("resource"), ctx,
		model.Bin(model.OAnd, tr, tr), model.Bin(model.OOr, tr, tr), model.Un(model.ONot, tr), model.Un(model.ONeg, one),
		model.If(tr, one, two), model.Bin(model.OAdd, one, two), model.Bin(model.OSub, one, two), model.Bin(model.OMul, one, two),
		model.Bin(model.OEq, one, two), model.Bin(model.ONe, one, two), model.Bin(model.OLt, one, two), model.Bin(model.OLe, one, two),
		model.Bin(model.OGt, one, two), model.Bin(model.OGe, one, two), model.Bin(model.OIn, pr, L(model.Ent("G", "a"))),
		model.Has(pr, "a"), model.Has(ctx, "has space"), model.Access(ctx, "a"), model.Access(ctx, "if"),
		model.Bin(model.OHasTag, pr, L(model.Str("t"))), model.Bin(model.OGetTag, pr, L(model.Str("t"))),
		model.Like(L(model.Str("abc")), []model.PatElem{{Lit: "a"}, {Wild: true, Lit: "c*"}, {Wild: true}}),
		model.Is(pr, "U"), model.IsIn(pr, "NS::T", L(model.Ent("G", "a"))),
		model.Bin(model.OContains, set, one), model.Bin(model.OContainsAll, set, set), model.Bin(model.OContainsAny, set, set),
		model.Un(model.OIsEmpty, set), set, model.SetE(), model.RecE([]string{"a", "b c"}, []*model.Expr{one, set}), model.RecE(nil, nil),
	}
	names := make([]string, 0, len(model.ExtArity))
	for k := range model.ExtArity {
		names = append(names, k)
	}
	sort.Strings(names)
	for _, n := range names {
		var args []*model.Expr
		switch n {
		case "ip", "decimal", "datetime", "duration":
			_, s := c10ExtArg(map[string]model.Val{"ip": gen.IPs[0], "decimal": model.Decimal(12345), "datetime": model.Datetime(0), "duration": model.Duration(1000)}[n])
			args = []*model.Expr{L(model.Str(s))}
		case "lessThan", "lessThanOrEqual", "greaterThan", "greaterThanOrEqual":
			args = []*model.Expr{dec, dec}
		case "isInRange":
			args = []*model.Expr{ip, ip}
		case "isIpv4", "isIpv6", "isLoopback", "isMulticast":
			args = []*model.Expr{ip}
		case "offset":
			args = []*model.Expr{dt, du}
		case "durationSince":
			args = []*model.Expr{dt, dt}
		case "toDate", "toTime":
			args = []*model.Expr{dt}
		default:
			args = []*model.Expr{du}
		}
		out = append(out, model.Ext(n, args...))
	}
	return out
}

// c10FixedPolicies: a handful of policies that together contain every node kind and scope form.
func c10FixedPolicies() []*model.Policy {
	ex := c10AllOpsExprs()
	scopesP := []model.Scope{{Kind: model.ScAll}, {Kind: model.ScEq, Ent: model.Ent("U", "a")}, {Kind: model.ScIn, Ent: model.Ent("G", "a")},
		{Kind: model.ScIs, Type: "U"}, {Kind: model.ScIsIn, Type: "NS::T", Ent: model.Ent("G", "b")}}
	scopesA := []model.Scope{{Kind: model.ScAll}, {Kind: model.ScEq, Ent: model.Ent("Action", "view")}, {Kind: model.ScIn, Ent: model.Ent("Action", "grp")},
		{Kind: model.ScInSet, Ents: []model.Val{model.Ent("Action", "view"), model.Ent("Action", "b")}}, {Kind: model.ScInSet}}
	var out []*model.Policy
	per := 8
	for i := 0; i*per < len(ex); i++ {
		p := &model.Policy{Permit: i%2 == 0, P: scopesP[i%5], A: scopesA[i%5], R: scopesP[(i+2)%5]}
		if i%2 == 0 {
			p.Annots = []model.Annot{{Key: "id", Val: "x y"}, {Key: "advice", Val: ""}}
		}
		for j := i * per; j < (i+1)*per && j < len(ex); j++ {
			p.Conds = append(p.Conds, model.Cond{When: j%3 != 0, Body: ex[j]})
		}
		out = append(out, p)
	}
	return out
}

// c10Deep is one deep-nesting input: a recursive construct repeated Depth times.
type c10Deep struct {
	Target    string
	Construct string
	Depth     int
	Unit      int // bytes per level (to honour the 8 MiB cap)
	JSONish   bool
	build     func(d int) string
}

func (d c10Deep) Build() []byte { return []byte(d.build(d.Depth)) }

const c10MaxDeepBytes = 8 << 20

func c10PolicyWrap(body string) string {
	return "permit(principal,action,resource) when { " + body + " };"
}

func c10JSONPolicyWrap(body string) string {
	return `{"effect":"permit","principal":{"op":"All"},"action":{"op":"All"},"resource":{"op":"All"},"conditions":[{"kind":"when","body":` + body + `}]}`
}

func rep(s string, n int) string { return strings.Repeat(s, n) }

type c10DeepConstruct struct {
	name    string
	targets []string
	unit    int
	build   func(d int) string
	heavy   bool // also run at the largest depths in the quick tier
	jsonish bool // JSON nesting: add depths around the encoding/json limit
}

// explicit depth lists (override the tier defaults)
var c10DeepDepthOverride = map[string][]int{
	"text:has-path": {64, 256},
	// pretty-printing a nested record type indents every level: the rendering grows with depth^2
	"schematext:record-nest": {1 << 10, 1 << 13}, "schematext:entity-shape-nest": {1 << 10, 1 << 13},
	// a path of n segments is assembled by repeated string concatenation (cost n^2): terminates, slowly
	"schematext:long-path": {1 << 10, 1 << 13, 1 << 16},
}

func c10DeepConstructs() []c10DeepConstruct {
	txt := []string{"policy.text"}
	return []c10DeepConstruct{
		{"text:parens", []string{"policy.text", "policylist.text", "decoder.stream", "policyset.frombytes"}, 2, func(d int) string { return c10PolicyWrap(rep("(", d) + "1" + rep(")", d)) }, true, false},
		{"text:not-chain", txt, 1, func(d int) string { return c10PolicyWrap(rep("!", d) + "true") }, true, false},
		{"text:neg-chain", txt, 1, func(d int) string { return c10PolicyWrap(rep("-", d) + "1") }, false, false},
		{"text:set-nest", txt, 2, func(d int) string { return c10PolicyWrap(rep("[", d) + rep("]", d)) }, true, false},
		{"text:record-nest", txt, 4, func(d int) string { return c10PolicyWrap(rep("{a:", d) + "1" + rep("}", d)) }, false, false},
		{"text:if-else-chain", txt, 20, func(d int) string { return c10PolicyWrap(rep("if true then 1 else ", d) + "1") }, false, false},
		{"text:if-cond-nest", txt, 17, func(d int) string { return c10PolicyWrap(rep("if ", d) + "true" + rep(" then 1 else 1", d)) }, false, false},
		{"text:member-chain", txt, 2, func(d int) string { return c10PolicyWrap("principal" + rep(".a", d)) }, true, false},
		{"text:index-chain", txt, 5, func(d int) string { return c10PolicyWrap("principal" + rep(`["a"]`, d)) }, false, false},
		{"text:method-chain", txt, 10, func(d int) string { return c10PolicyWrap("context" + rep(".isEmpty()", d)) }, false, false},
		{"text:add-chain", txt, 2, func(d int) string { return c10PolicyWrap("1" + rep("+1", d)) }, true, false},
		{"text:and-chain", txt, 6, func(d int) string { return c10PolicyWrap("true" + rep("&&true", d)) }, false, false},
		{"text:or-chain", txt, 6, func(d int) string { return c10PolicyWrap("true" + rep("||true", d)) }, false, false},
		{"text:mul-chain", txt, 2, func(d int) string { return c10PolicyWrap("1" + rep("*1", d)) }, false, false},
		{"text:call-nest", txt, 9, func(d int) string { return c10PolicyWrap(rep("decimal(", d) + `"1.0"` + rep(")", d)) }, false, false},
		{"text:method-arg-nest", txt, 14, func(d int) string { return c10PolicyWrap(rep("[1].contains(", d) + "1" + rep(")", d)) }, false, false},
		// `x has a.b.c` is sugar for `x has a && x.a has b && x.a.b has c`: the tree (and every
		// rendering of it) grows with the SQUARE of the path length by definition of the sugar, so
		// the path length is bounded here (256 -> 33k nodes, already ~15 CPU-s through the JSON encoder); longer paths only burn CPU and memory.
		{"text:has-path", txt, 2, func(d int) string { return c10PolicyWrap("principal has a" + rep(".a", d)) }, false, false},
		{"text:like-long-pattern", txt, 2, func(d int) string { return c10PolicyWrap(`"a" like "` + rep(`*a`, d) + `"`) }, false, false},
		{"text:long-string-escapes", txt, 6, func(d int) string { return c10PolicyWrap(`"` + rep(`\u{41}`, d) + `"`) }, false, false},
		{"text:many-policies", []string{"policylist.text", "decoder.stream", "policyset.frombytes"}, 35, func(d int) string { return rep("permit(principal,action,resource);\n", d) }, false, false},
		{"text:many-annotations", txt, 12, func(d int) string {
			var sb strings.Builder
			for i := 0; i < d; i++ {
				sb.WriteString("@a")
				sb.WriteString(itoa(i))
				sb.WriteString(`("") `)
			}
			return sb.String() + "permit(principal,action,resource);"
		}, false, false},
		{"text:many-conditions", txt, 12, func(d int) string { return "permit(principal,action,resource)" + rep(" when {true}", d) + ";" }, false, false},
		{"text:action-list", txt, 8, func(d int) string { return "permit(principal,action in [" + rep(`A::"a",`, d) + "],resource);" }, false, false},
		{"text:unterminated-comment", txt, 2, func(d int) string { return "/*" + rep("/*", d) }, false, false},
		{"text:long-entity-path", []string{"policy.text", "entityuid.text"}, 3, func(d int) string {
			return rep("A::", d) + `"x"`
		}, false, false},

		{"policyjson:not-nest", []string{"policy.json", "policyset.json"}, 16, func(d int) string {
			return c10JSONPolicyWrap(rep(`{"!":{"arg":`, d) + `{"Value":true}` + rep(`}}`, d))
		}, true, true},
		{"policyjson:set-nest", []string{"policy.json"}, 10, func(d int) string {
			return c10JSONPolicyWrap(rep(`{"Set":[`, d) + rep(`]}`, d))
		}, false, true},
		{"policyjson:record-nest", []string{"policy.json"}, 19, func(d int) string {
			return c10JSONPolicyWrap(rep(`{"Record":{"a":`, d) + `{"Value":1}` + rep(`}}`, d))
		}, false, true},
		{"policyjson:add-left-nest", []string{"policy.json"}, 40, func(d int) string {
			return c10JSONPolicyWrap(rep(`{"+":{"left":`, d) + `{"Value":1}` + rep(`,"right":{"Value":1}}}`, d))
		}, false, true},
		{"policyjson:ite-nest", []string{"policy.json"}, 80, func(d int) string {
			return c10JSONPolicyWrap(rep(`{"if-then-else":{"if":{"Value":true},"then":{"Value":1},"else":`, d) + `{"Value":1}` + rep(`}}`, d))
		}, false, true},
		{"policyjson:ext-nest", []string{"policy.json"}, 15, func(d int) string {
			return c10JSONPolicyWrap(rep(`{"decimal":[`, d) + `{"Value":"1.0"}` + rep(`]}`, d))
		}, false, true},
		{"policyjson:value-set-nest", []string{"policy.json"}, 2, func(d int) string {
			return c10JSONPolicyWrap(`{"Value":` + rep(`[`, d) + rep(`]`, d) + `}`)
		}, false, true},
		{"policyjson:wide-set", []string{"policy.json"}, 12, func(d int) string {
			return c10JSONPolicyWrap(`{"Set":[` + rep(`{"Value":1},`, d) + `{"Value":1}]}`)
		}, false, false},

		{"valuejson:set-nest", []string{"value.json", "set.json"}, 2, func(d int) string { return rep("[", d) + rep("]", d) }, true, true},
		{"valuejson:record-nest", []string{"value.json", "record.json"}, 6, func(d int) string { return rep(`{"a":`, d) + "1" + rep("}", d) }, false, true},
		{"valuejson:wide-set", []string{"value.json"}, 2, func(d int) string { return "[" + rep("1,", d) + "1]" }, false, false},
		{"valuejson:wide-record", []string{"value.json"}, 12, func(d int) string {
			var sb strings.Builder
			sb.WriteString("{")
			for i := 0; i < d; i++ {
				sb.WriteString(`"k`)
				sb.WriteString(itoa(i))
				sb.WriteString(`":1,`)
			}
			sb.WriteString(`"z":1}`)
			return sb.String()
		}, false, false},
		{"entityjson:attr-nest", []string{"entity.json"}, 6, func(d int) string {
			return `{"uid":{"type":"U","id":"a"},"parents":[],"attrs":{"x":` + rep(`{"a":`, d) + "1" + rep("}", d) + `}}`
		}, false, true},
		{"entitymapjson:attr-nest", []string{"entitymap.json"}, 6, func(d int) string {
			return `[{"uid":{"type":"U","id":"a"},"parents":[],"attrs":{"x":` + rep(`{"a":`, d) + "1" + rep("}", d) + `}}]`
		}, false, true},
		{"entityjson:many-parents", []string{"entity.json"}, 24, func(d int) string {
			return `{"uid":{"type":"U","id":"a"},"parents":[` + rep(`{"type":"G","id":"a"},`, d) + `{"type":"G","id":"b"}],"attrs":{}}`
		}, false, false},

		{"schematext:set-nest", []string{"schema.text"}, 5, func(d int) string { return "type T = " + rep("Set<", d) + "Long" + rep(">", d) + ";" }, true, false},
		{"schematext:record-nest", []string{"schema.text"}, 5, func(d int) string { return "type T = " + rep("{a: ", d) + "Long" + rep("}", d) + ";" }, false, false},
		{"schematext:entity-shape-nest", []string{"schema.text"}, 5, func(d int) string { return "entity E = " + rep("{a: ", d) + "Long" + rep("}", d) + ";" }, false, false},
		{"schematext:long-path", []string{"schema.text"}, 3, func(d int) string { return "type T = " + rep("A::", d) + "B;" }, false, false},
		{"schematext:many-decls", []string{"schema.text"}, 12, func(d int) string {
			var sb strings.Builder
			for i := 0; i < d; i++ {
				sb.WriteString("entity E")
				sb.WriteString(itoa(i))
				sb.WriteString(";\n")
			}
			return sb.String()
		}, false, false},
		{"schematext:common-type-chain", []string{"schema.text"}, 20, func(d int) string {
			var sb strings.Builder
			for i := 0; i < d; i++ {
				sb.WriteString("type T")
				sb.WriteString(itoa(i))
				sb.WriteString(" = T")
				sb.WriteString(itoa(i + 1))
				sb.WriteString(";\n")
			}
			sb.WriteString("type T" + itoa(d) + " = Long;\n")
			return sb.String()
		}, false, false},
		{"schematext:entity-parent-chain", []string{"schema.text"}, 24, func(d int) string {
			var sb strings.Builder
			for i := 0; i < d; i++ {
				sb.WriteString("entity E")
				sb.WriteString(itoa(i))
				sb.WriteString(" in [E")
				sb.WriteString(itoa(i + 1))
				sb.WriteString("];\n")
			}
			sb.WriteString("entity E" + itoa(d) + ";\n")
			return sb.String()
		}, false, false},
		{"schematext:action-parent-chain", []string{"schema.text"}, 24, func(d int) string {
			var sb strings.Builder
			for i := 0; i < d; i++ {
				sb.WriteString("action a")
				sb.WriteString(itoa(i))
				sb.WriteString(" in [a")
				sb.WriteString(itoa(i + 1))
				sb.WriteString("];\n")
			}
			sb.WriteString("action a" + itoa(d) + ";\n")
			return sb.String()
		}, false, false},
		{"schemajson:set-nest", []string{"schema.json"}, 26, func(d int) string {
			return `{"":{"entityTypes":{},"actions":{},"commonTypes":{"T":` + rep(`{"type":"Set","element":`, d) + `{"type":"Long"}` + rep(`}`, d) + `}}}`
		}, true, true},
		{"schemajson:record-nest", []string{"schema.json"}, 38, func(d int) string {
			return `{"":{"entityTypes":{},"actions":{},"commonTypes":{"T":` + rep(`{"type":"Record","attributes":{"a":`, d) + `{"type":"Long"}` + rep(`}}`, d) + `}}}`
		}, false, true},
	}
}

func itoa(i int) string {
	if i == 0 {
		return "0"
	}
	var b [20]byte
	p := len(b)
	for i > 0 {
		p--
		b[p] = byte('0' + i%10)
		i /= 10
	}
	return string(b[p:])
}

// c10DeepCases lists the (construct, depth, decoder) cases, ordered by depth so that the
// smallest failing depth of a signature becomes its witness.
func c10DeepCases(thorough bool) []c10Deep {
	var out []c10Deep
	for _, c := range c10DeepConstructs() {
		var depths []int
		if ov := c10DeepDepthOverride[c.name]; ov != nil {
			depths = ov
		} else if c.jsonish {
			// JSON nesting: encoding/json rejects more than 10000 levels; below that limit the
			// decoders re-scan the remaining document at every level (cost grows with depth^2:
			// ~30 CPU-s for a 25 KB policy at depth 2490), so in-limit nesting is exercised up to
			// 1024 (quick) / 2490 (thorough); the deeper ones are all beyond the limit.
			depths = []int{256, 1024, 1 << 14}
			if thorough {
				depths = []int{256, 1024, 2490, 1 << 14, 1 << 17, 1 << 20, 1 << 21}
			} else if c.heavy {
				depths = append(depths, 1<<20)
			}
		} else if thorough {
			if c.heavy {
				depths = []int{1 << 10, 1 << 12, 1 << 14, 1 << 16, 1 << 18, 1 << 20, 1 << 21}
			} else {
				depths = []int{1 << 10, 1 << 13, 1 << 16, 1 << 19}
			}
		} else {
			depths = []int{1 << 10, 1 << 13}
			if c.heavy {
				depths = append(depths, 1<<16, 1<<18)
			}
			if c.name == "text:parens" {
				depths = append(depths, 1<<20)
			}
		}
		seen := map[int]bool{}
		for _, d := range depths {
			if d*c.unit > c10MaxDeepBytes {
				d = c10MaxDeepBytes / c.unit
			}
			if seen[d] {
				continue
			}
			seen[d] = true
			for ti, t := range c.targets {
				if ti > 0 && d > 1<<16 {
					continue // the big ones only through the first decoder
				}
				out = append(out, c10Deep{Target: t, Construct: c.name, Depth: d, Unit: c.unit, JSONish: c.jsonish, build: c.build})
			}
		}
	}
	sort.SliceStable(out, func(i, j int) bool { return out[i].Depth < out[j].Depth })
	return out
}
