package props

import (
	"fmt"
	"reflect"
	"sort"
	"strings"
)

// DeepPrint renders a Go value completely and deterministically by reflection: pointers,
// interfaces, slices, arrays and maps are followed (maps sorted by the rendering of their
// keys), unexported fields included; pointer identities are not printed, cycles are cut.
func DeepPrint(v any) string {
	var sb strings.Builder
	deepPrint(&sb, reflect.ValueOf(v), map[uintptr]bool{}, 0)
	return sb.String()
}

func deepPrint(sb *strings.Builder, v reflect.Value, seen map[uintptr]bool, depth int) {
	if depth > 200 {
		sb.WriteString("<deep>")
		return
	}
	if !v.IsValid() {
		sb.WriteString("<nil>")
		return
	}
	switch v.Kind() {
	case reflect.Pointer:
		if v.IsNil() {
			sb.WriteString("nil")
			return
		}
		p := v.Pointer()
		if seen[p] {
			sb.WriteString("<cycle>")
			return
		}
		seen[p] = true
		sb.WriteByte('&')
		deepPrint(sb, v.Elem(), seen, depth+1)
		delete(seen, p)
	case reflect.Interface:
		if v.IsNil() {
			sb.WriteString("nil")
			return
		}
		sb.WriteString(v.Elem().Type().String())
		sb.WriteByte(':')
		deepPrint(sb, v.Elem(), seen, depth+1)
	case reflect.Struct:
		sb.WriteString(v.Type().String())
		sb.WriteByte('{')
		for i := 0; i < v.NumField(); i++ {
			sb.WriteString(v.Type().Field(i).Name)
			sb.WriteByte('=')
			deepPrint(sb, v.Field(i), seen, depth+1)
			sb.WriteByte(' ')
		}
		sb.WriteByte('}')
	case reflect.Slice:
		if v.IsNil() {
			sb.WriteString("nil[]")
			return
		}
		fallthrough
	case reflect.Array:
		sb.WriteByte('[')
		for i := 0; i < v.Len(); i++ {
			deepPrint(sb, v.Index(i), seen, depth+1)
			sb.WriteByte(',')
		}
		sb.WriteByte(']')
	case reflect.Map:
		if v.IsNil() {
			sb.WriteString("nilmap")
			return
		}
		type kv struct{ k, v string }
		var items []kv
		it := v.MapRange()
		for it.Next() {
			var kb, vb strings.Builder
			deepPrint(&kb, it.Key(), seen, depth+1)
			deepPrint(&vb, it.Value(), seen, depth+1)
			items = append(items, kv{kb.String(), vb.String()})
		}
		sort.Slice(items, func(a, b int) bool { return items[a].k < items[b].k })
		sb.WriteString("map{")
		for _, x := range items {
			sb.WriteString(x.k)
			sb.WriteString("=>")
			sb.WriteString(x.v)
			sb.WriteByte(';')
		}
		sb.WriteByte('}')
	case reflect.Func:
		if v.IsNil() {
			sb.WriteString("nilfunc")
		} else {
			sb.WriteString("func")
		}
	case reflect.Chan, reflect.UnsafePointer:
		sb.WriteString("<chan/unsafe>")
	case reflect.String:
		fmt.Fprintf(sb, "%q", v.String())
	case reflect.Bool:
		fmt.Fprintf(sb, "%v", v.Bool())
	case reflect.Int, reflect.Int8, reflect.Int16, reflect.Int32, reflect.Int64:
		fmt.Fprintf(sb, "%d", v.Int())
	case reflect.Uint, reflect.Uint8, reflect.Uint16, reflect.Uint32, reflect.Uint64, reflect.Uintptr:
		fmt.Fprintf(sb, "%d", v.Uint())
	case reflect.Float32, reflect.Float64:
		fmt.Fprintf(sb, "%v", v.Float())
	default:
		fmt.Fprintf(sb, "<%s>", v.Kind())
	}
}
