package props

// Harness-side (independent) Cedar-JSON writer and reader used by the C13 monitor, the
// "looks like an escape" value generator, the domain restriction (escape-like records) and
// the witness shrinker. Nothing in this file calls a cedar-go encoder or decoder.

import (
	"bytes"
	"encoding/json"
	"fmt"
	"sort"
	"strconv"
	"strings"
	"unicode/utf8"

	"verif/internal/gen"
	"verif/internal/model"
	"verif/internal/mon"
)

// ---------------------------------------------------------------- writer

// jStyle selects one spelling of a JSON document. All per-node random choices are drawn from
// a PRNG re-created from Seed at the start of every write, so that a style is a pure
// function and can be re-applied to shrunken values.
type jStyle struct {
	Seed   uint64
	Noise  bool // insignificant whitespace between tokens
	Esc    int  // 0 minimal escapes, 1 every rune as \uXXXX, 2 random mix incl. short escapes and \/
	Perm   bool // permute set elements, record members and the two members of escape objects
	Dup    bool // repeat set elements
	AltLit bool // alternative literal spellings of extension values (trailing zeros, ms-only durations, offsets, /32 ...)
}

func (s jStyle) flags() []string {
	var f []string
	if s.Noise {
		f = append(f, "whitespace")
	}
	switch s.Esc {
	case 1:
		f = append(f, "all-u-escapes")
	case 2:
		f = append(f, "mixed-escapes")
	}
	if s.Perm {
		f = append(f, "permuted")
	}
	if s.Dup {
		f = append(f, "dup-elements")
	}
	if s.AltLit {
		f = append(f, "alt-literals")
	}
	if len(f) == 0 {
		f = []string{"plain"}
	}
	return f
}

func randStyle(r *mon.Rand) jStyle {
	return jStyle{Seed: r.U64(), Noise: r.P(0.4), Esc: r.Intn(3), Perm: r.P(0.6), Dup: r.P(0.3), AltLit: r.P(0.5)}
}

type jw struct {
	b  strings.Builder
	st jStyle
	r  *mon.Rand
}

func newJW(st jStyle) *jw { return &jw{st: st, r: mon.NewRand(st.Seed)} }

func (w *jw) ws() {
	if !w.st.Noise {
		return
	}
	switch w.r.Intn(6) {
	case 0:
		w.b.WriteByte(' ')
	case 1:
		w.b.WriteByte('\n')
	case 2:
		w.b.WriteString("\t ")
	case 3:
		w.b.WriteString("\r\n")
	}
}

func (w *jw) tok(s string) {
	w.ws()
	w.b.WriteString(s)
	w.ws()
}

func uEsc(b *strings.Builder, r rune, upper bool) {
	f := `\u%04x`
	if upper {
		f = `\u%04X`
	}
	if r > 0xFFFF {
		r -= 0x10000
		fmt.Fprintf(b, f, 0xD800+(r>>10))
		fmt.Fprintf(b, f, 0xDC00+(r&0x3FF))
		return
	}
	fmt.Fprintf(b, f, r)
}

var shortEsc = map[rune]string{'"': `\"`, '\\': `\\`, '/': `\/`, '\b': `\b`, '\f': `\f`, '\n': `\n`, '\r': `\r`, '\t': `\t`}

// str writes a JSON string. The input must be valid UTF-8 (domain assumption).
func (w *jw) str(s string) {
	w.ws()
	b := &w.b
	b.WriteByte('"')
	for _, r := range s {
		mustEscape := r == '"' || r == '\\' || r < 0x20
		switch w.st.Esc {
		case 1:
			uEsc(b, r, false)
		case 2:
			c := w.r.Intn(4)
			if se, ok := shortEsc[r]; ok && c <= 1 {
				b.WriteString(se)
			} else if c == 2 || mustEscape {
				uEsc(b, r, w.r.Bool())
			} else {
				b.WriteRune(r)
			}
		default:
			if mustEscape {
				uEsc(b, r, false)
			} else {
				b.WriteRune(r)
			}
		}
	}
	b.WriteByte('"')
	w.ws()
}

func (w *jw) pair(k1 string, v1 func(), k2 string, v2 func()) {
	if w.st.Perm && w.r.Bool() {
		k1, v1, k2, v2 = k2, v2, k1, v1
	}
	w.tok("{")
	w.str(k1)
	w.tok(":")
	v1()
	w.tok(",")
	w.str(k2)
	w.tok(":")
	v2()
	w.tok("}")
}

func (w *jw) order(n int) []int {
	if w.st.Perm {
		return w.r.Perm(n)
	}
	idx := make([]int, n)
	for i := range idx {
		idx[i] = i
	}
	return idx
}

// entityRef writes an entity reference: explicit {"__entity":{..}} or implicit {"type","id"}.
func (w *jw) entityRef(v model.Val, implicit bool) {
	inner := func() {
		w.pair("type", func() { w.str(v.T) }, "id", func() { w.str(v.ID) })
	}
	if implicit {
		inner()
		return
	}
	w.tok("{")
	w.str("__entity")
	w.tok(":")
	inner()
	w.tok("}")
}

// form of an extension value: 0 explicit {"__extn":{fn,arg}}, 1 {fn,arg}, 2 bare string.
func (w *jw) ext(v model.Val, form int) {
	lit := extLiteral(v, w.st.AltLit, w.r)
	if form == 2 {
		w.str(lit)
		return
	}
	inner := func() {
		w.pair("fn", func() { w.str(extFn(v.K)) }, "arg", func() { w.str(lit) })
	}
	if form == 1 {
		inner()
		return
	}
	w.tok("{")
	w.str("__extn")
	w.tok(":")
	inner()
	w.tok("}")
}

func extFn(k model.Kind) string {
	switch k {
	case model.KDecimal:
		return "decimal"
	case model.KIP:
		return "ip"
	case model.KDatetime:
		return "datetime"
	case model.KDuration:
		return "duration"
	}
	return "?"
}

// val writes a value with every entity and extension value in explicit (escaped) form.
func (w *jw) val(v model.Val) {
	switch v.K {
	case model.KBool:
		if v.B {
			w.tok("true")
		} else {
			w.tok("false")
		}
	case model.KLong:
		if v.I == 0 && w.st.AltLit && w.r.Bool() {
			w.tok("-0")
		} else {
			w.tok(strconv.FormatInt(v.I, 10))
		}
	case model.KString:
		w.str(v.S)
	case model.KEntity:
		w.entityRef(v, false)
	case model.KDecimal, model.KIP, model.KDatetime, model.KDuration:
		w.ext(v, 0)
	case model.KSet:
		w.tok("[")
		idx := w.order(len(v.Elems))
		if w.st.Dup && len(idx) > 0 {
			for k := w.r.Intn(3); k > 0; k-- {
				idx = append(idx, idx[w.r.Intn(len(idx))])
			}
		}
		for k, i := range idx {
			if k > 0 {
				w.tok(",")
			}
			w.val(v.Elems[i])
		}
		w.tok("]")
	case model.KRecord:
		w.record(v, func(_ string, x model.Val) { w.val(x) })
	}
}

func (w *jw) record(v model.Val, each func(k string, x model.Val)) {
	w.tok("{")
	for k, i := range w.order(len(v.Keys)) {
		if k > 0 {
			w.tok(",")
		}
		w.str(v.Keys[i])
		w.tok(":")
		each(v.Keys[i], v.Vals[i])
	}
	w.tok("}")
}

func writeValue(v model.Val, st jStyle) string {
	w := newJW(st)
	w.val(v)
	return w.b.String()
}

// extLiteral renders the string argument of an extension value. alt=false gives the model's
// canonical literal; alt=true picks among spellings that denote the same value by the
// definition of the literal syntax (RFC 80 datetime forms restricted to 4-digit years).
func extLiteral(v model.Val, alt bool, r *mon.Rand) string {
	switch v.K {
	case model.KDecimal:
		if alt {
			for try := 0; try < 4; try++ {
				if s, ok := model.PrintDecimalDigits(v.I, 1+r.Intn(4)); ok {
					return s
				}
			}
		}
		return model.PrintDecimal(v.I)
	case model.KDuration:
		if alt {
			switch r.Intn(3) {
			case 0:
				return fmt.Sprintf("%dms", v.I)
			case 1:
				if v.I%1000 == 0 {
					return fmt.Sprintf("%ds", v.I/1000)
				}
			}
		}
		return model.PrintDuration(v.I)
	case model.KDatetime:
		if alt {
			if s, ok := altDatetime(v.I, r); ok {
				return s
			}
		}
		return model.PrintDatetime(v.I)
	case model.KIP:
		s := model.PrintIP(v.IP)
		if alt && !strings.Contains(s, "/") && r.Bool() {
			if v.IP.V6 {
				return s + "/128"
			}
			return s + "/32"
		}
		return s
	}
	return ""
}

const (
	year0Start   = -62167219200000 // 0000-01-01T00:00:00.000Z
	year9999End  = 253402300799999 // 9999-12-31T23:59:59.999Z
	msPerDay     = 86400000
	dtLowBound   = DatetimeLowBound
	maxOffsetAbs = 23*3600000 + 59*60000
)

func altDatetime(ms int64, r *mon.Rand) (string, bool) {
	if ms < year0Start || ms > year9999End {
		return "", false
	}
	full := model.PrintDatetime(ms) // YYYY-MM-DDThh:mm:ss.SSSZ
	switch r.Intn(3) {
	case 0:
		if ms%msPerDay == 0 {
			return full[:10], true
		}
	case 1:
		if ms%1000 == 0 {
			return full[:19] + "Z", true
		}
	}
	// offset form: local = utc + off, suffix +hhmm (or -hhmm for negative off)
	oh, om := int64(r.Intn(24)), int64(r.Intn(60))
	off := oh*3600000 + om*60000
	sign := "+"
	if r.Bool() {
		off = -off
		sign = "-"
	}
	local := ms + off
	if local < year0Start || local > year9999End {
		return "", false
	}
	l := model.PrintDatetime(local)
	body := l[:len(l)-1]
	if ms%1000 == 0 && r.Bool() {
		body = l[:19]
	}
	return fmt.Sprintf("%s%s%02d%02d", body, sign, oh, om), true
}

// ---------------------------------------------------------------- reader

func parseGeneric(b []byte) (any, error) {
	dec := json.NewDecoder(bytes.NewReader(b))
	dec.UseNumber()
	var x any
	if err := dec.Decode(&x); err != nil {
		return nil, err
	}
	if dec.More() {
		return nil, fmt.Errorf("trailing data")
	}
	return x, nil
}

// parseIPx is model.ParseIP extended by the dotted-quad tail of IPv6 text ("::ffff:1.2.3.4"),
// which Go's netip printer emits for IPv4-mapped addresses.
func parseIPx(s string) (model.IPVal, bool) {
	if strings.Contains(s, ":") && strings.Contains(s, ".") {
		pfx := ""
		if i := strings.IndexByte(s, '/'); i >= 0 {
			s, pfx = s[:i], s[i:]
		}
		j := strings.LastIndexByte(s, ':')
		q, ok := model.ParseIP(s[j+1:])
		if !ok || q.V6 {
			return model.IPVal{}, false
		}
		s = fmt.Sprintf("%s%x:%x%s", s[:j+1], q.Lo>>16, q.Lo&0xffff, pfx)
	}
	return model.ParseIP(s)
}

func parseExt(fn, arg string) (model.Val, bool) {
	switch fn {
	case "decimal":
		if v, ok := model.ParseDecimal(arg); ok {
			return model.Decimal(v), true
		}
	case "duration":
		if v, ok := model.ParseDuration(arg); ok {
			return model.Duration(v), true
		}
	case "datetime":
		if v, _, ok := model.ParseDatetime(arg); ok {
			return model.Datetime(v), true
		}
	case "ip":
		if v, ok := parseIPx(arg); ok {
			return model.IP(v), true
		}
	}
	return model.Val{}, false
}

func twoStrings(x any, k1, k2 string) (string, string, bool) {
	m, ok := x.(map[string]any)
	if !ok || len(m) != 2 {
		return "", "", false
	}
	a, ok1 := m[k1].(string)
	b, ok2 := m[k2].(string)
	return a, b, ok1 && ok2
}

// readValue interprets generic JSON as a Cedar value in the explicit format: an object that
// is exactly {"__entity":{"type":s,"id":s}} or {"__extn":{"fn":s,"arg":s}} is an escape,
// every other object is a record.
func readValue(x any) (model.Val, error) {
	switch t := x.(type) {
	case bool:
		return model.Bool(t), nil
	case string:
		return model.Str(t), nil
	case json.Number:
		i, err := strconv.ParseInt(string(t), 10, 64)
		if err != nil {
			return model.Val{}, fmt.Errorf("number %s is not a long", t)
		}
		return model.Long(i), nil
	case []any:
		xs := make([]model.Val, len(t))
		for i, e := range t {
			v, err := readValue(e)
			if err != nil {
				return v, err
			}
			xs[i] = v
		}
		return model.Set(xs...), nil
	case map[string]any:
		if len(t) == 1 {
			if in, ok := t["__entity"]; ok {
				if ty, id, ok := twoStrings(in, "type", "id"); ok {
					return model.Ent(ty, id), nil
				}
			}
			if in, ok := t["__extn"]; ok {
				if fn, arg, ok := twoStrings(in, "fn", "arg"); ok {
					v, ok := parseExt(fn, arg)
					if !ok {
						return v, fmt.Errorf("extension escape %s(%q) is not a valid literal", fn, arg)
					}
					return v, nil
				}
			}
		}
		return readRecord(t)
	case nil:
		return model.Val{}, fmt.Errorf("null is not a Cedar value")
	}
	return model.Val{}, fmt.Errorf("unexpected JSON %T", x)
}

func readRecord(x any) (model.Val, error) {
	m, ok := x.(map[string]any)
	if !ok {
		return model.Val{}, fmt.Errorf("expected object, got %T", x)
	}
	var ks []string
	var vs []model.Val
	for k, e := range m {
		v, err := readValue(e)
		if err != nil {
			return v, err
		}
		ks = append(ks, k)
		vs = append(vs, v)
	}
	return model.Record(ks, vs), nil
}

func readUID(x any) (model.Val, error) {
	if ty, id, ok := twoStrings(x, "type", "id"); ok {
		return model.Ent(ty, id), nil
	}
	if m, ok := x.(map[string]any); ok && len(m) == 1 {
		if ty, id, ok := twoStrings(m["__entity"], "type", "id"); ok {
			return model.Ent(ty, id), nil
		}
	}
	return model.Val{}, fmt.Errorf("not an entity reference")
}

// readEntity reads {"uid","parents","attrs","tags"} (all four members required: that is what
// cedar-go's encoder is documented to write).
func readEntity(x any) (*model.Entity, error) {
	m, ok := x.(map[string]any)
	if !ok || len(m) != 4 {
		return nil, fmt.Errorf("entity object must have exactly uid, parents, attrs, tags")
	}
	uid, err := readUID(m["uid"])
	if err != nil {
		return nil, fmt.Errorf("uid: %w", err)
	}
	ps, ok := m["parents"].([]any)
	if !ok {
		return nil, fmt.Errorf("parents is not an array")
	}
	e := &model.Entity{UID: uid}
	for _, p := range ps {
		pu, err := readUID(p)
		if err != nil {
			return nil, fmt.Errorf("parent: %w", err)
		}
		e.Parents = append(e.Parents, pu)
	}
	if len(model.Set(e.Parents...).Elems) != len(e.Parents) {
		return nil, fmt.Errorf("duplicate parents in encoding")
	}
	e.Parents = model.Set(e.Parents...).Elems
	if e.Attrs, err = readRecord(m["attrs"]); err != nil {
		return nil, fmt.Errorf("attrs: %w", err)
	}
	if e.Tags, err = readRecord(m["tags"]); err != nil {
		return nil, fmt.Errorf("tags: %w", err)
	}
	return e, nil
}

// ---------------------------------------------------------------- domain restriction

func isStr(v model.Val) bool { return v.K == model.KString }

// isEscapeLike: a record whose JSON form is read as an escape object by the Cedar JSON value
// format as cedar-go (and the serde-based reference implementation) define it: an object with
// a member "__entity" bound to an object that has string members "type" and "id", or a
// member "__extn" bound to an object that has string members "fn" and "arg"; further members
// at either level are ignored by the format (pinned by cedar-go's own tests
// explicitEntityExtraField / "extra keys in inner"). Such a record is not representable
// (inherent ambiguity; the reference implementation refuses to serialise it).
func isEscapeLike(v model.Val) bool {
	if v.K != model.KRecord {
		return false
	}
	has := func(magic, k1, k2 string) bool {
		in, ok := v.Get(magic)
		if !ok || in.K != model.KRecord {
			return false
		}
		a, ok1 := in.Get(k1)
		b, ok2 := in.Get(k2)
		return ok1 && ok2 && isStr(a) && isStr(b)
	}
	return has("__entity", "type", "id") || has("__extn", "fn", "arg")
}

// hasEscapeLike reports whether v (if root) or any value nested in it is an escape-like record.
func hasEscapeLike(v model.Val, root bool) bool {
	if root && isEscapeLike(v) {
		return true
	}
	for _, e := range v.Elems {
		if hasEscapeLike(e, true) {
			return true
		}
	}
	for _, e := range v.Vals {
		if hasEscapeLike(e, true) {
			return true
		}
	}
	return false
}

func validUTF8Val(v model.Val) bool {
	if !utf8.ValidString(v.S) || !utf8.ValidString(v.T) || !utf8.ValidString(v.ID) {
		return false
	}
	for _, k := range v.Keys {
		if !utf8.ValidString(k) {
			return false
		}
	}
	for _, e := range v.Elems {
		if !validUTF8Val(e) {
			return false
		}
	}
	for _, e := range v.Vals {
		if !validUTF8Val(e) {
			return false
		}
	}
	return true
}

// ---------------------------------------------------------------- generators

var c13MagicKeys = []string{"__entity", "__extn", "__expr", "type", "id", "fn", "arg"}

// strings that look like extension literals / JSON fragments (must stay strings)
var c13TrickyStrings = []string{"1.5", "-0.0001", "127.0.0.1", "::1", "10.0.0.0/8", "1h", "1d2h3m4s5ms", "0ms", "2020-01-01", "2020-01-01T00:00:00Z",
	"{\"__entity\":{\"type\":\"U\",\"id\":\"a\"}}", "__extn", "[1]", "null", "true", "</script>", "&amp;<>", "  ", "/", "\\u0041", "\b\f"}

func c13String(r *mon.Rand) string {
	if r.P(0.15) {
		return mon.Pick(r, c13TrickyStrings)
	}
	return gen.RandString(r)
}

func c13Key(r *mon.Rand) string {
	switch r.Intn(10) {
	case 0:
		return mon.Pick(r, c13MagicKeys)
	case 1, 2:
		return c13String(r)
	}
	return mon.Pick(r, gen.AttrNames)
}

func c13Scalar(r *mon.Rand) model.Val {
	k := model.Kind(0)
	for {
		k = gen.RandKind(r)
		if k != model.KSet && k != model.KRecord {
			break
		}
	}
	if k == model.KString {
		return model.Str(c13String(r))
	}
	if k == model.KEntity && r.P(0.3) {
		return model.Ent(mon.Pick(r, gen.EntityTypes), c13String(r))
	}
	return gen.RandScalarOf(r, k)
}

// randLookalike builds a record that resembles an escape object without being one.
func randLookalike(r *mon.Rand) model.Val {
	innerEnt := func() model.Val {
		return model.Rec("type", model.Str(mon.Pick(r, gen.EntityTypes)), "id", model.Str(mon.Pick(r, gen.EntityIDs)))
	}
	innerExt := func() model.Val {
		fn := mon.Pick(r, []string{"ip", "decimal", "datetime", "duration", "unknown", "", "IP"})
		arg := mon.Pick(r, []string{"127.0.0.1", "1.5", "1970-01-01", "1h", "", "junk"})
		return model.Rec("fn", model.Str(fn), "arg", model.Str(arg))
	}
	mutate := func(in model.Val) model.Val {
		ks := append([]string{}, in.Keys...)
		vs := append([]model.Val{}, in.Vals...)
		switch r.Intn(5) {
		case 0: // drop one member
			i := r.Intn(len(ks))
			ks = append(ks[:i], ks[i+1:]...)
			vs = append(vs[:i], vs[i+1:]...)
		case 1: // drop both
			ks, vs = nil, nil
		case 2: // drop one member, add another one
			i := r.Intn(len(ks))
			ks[i], vs[i] = c13Key(r), c13Scalar(r)
		case 3: // non-string member
			vs[r.Intn(len(vs))] = mon.Pick(r, []model.Val{model.Long(1), model.Bool(true), model.Set(), model.Rec(), model.Ent("U", "a")})
		case 4: // upper-case member name (Go's decoder matches field names case-insensitively)
			i := r.Intn(len(ks))
			ks[i] = strings.ToUpper(ks[i][:1]) + ks[i][1:]
		}
		return model.Record(ks, vs)
	}
	var ks []string
	var vs []model.Val
	switch r.Intn(8) {
	case 0, 1:
		ks, vs = []string{"__entity"}, []model.Val{mutate(innerEnt())}
	case 2, 3:
		ks, vs = []string{"__extn"}, []model.Val{mutate(innerExt())}
	case 4: // crossed
		if r.Bool() {
			ks, vs = []string{"__entity"}, []model.Val{innerExt()}
		} else {
			ks, vs = []string{"__extn"}, []model.Val{innerEnt()}
		}
	case 5: // magic key bound to a non-record
		ks, vs = []string{mon.Pick(r, []string{"__entity", "__extn", "__expr"})}, []model.Val{c13Scalar(r)}
	case 6: // implicit-form look-alikes
		if r.Bool() {
			return mutateKeep(r, innerEnt())
		}
		return mutateKeep(r, innerExt())
	case 7: // both magic keys, or a magic key in another letter case
		if r.Bool() {
			ks, vs = []string{"__entity", "__extn"}, []model.Val{mutate(innerEnt()), mutate(innerExt())}
		} else if r.Bool() {
			ks, vs = []string{mon.Pick(r, []string{"__Entity", "__ENTITY"})}, []model.Val{innerEnt()}
		} else {
			ks, vs = []string{mon.Pick(r, []string{"__Extn", "__EXTN"})}, []model.Val{innerExt()}
		}
	}
	for n := r.Intn(3); n > 0; n-- {
		ks = append(ks, c13Key(r))
		vs = append(vs, c13Scalar(r))
	}
	return model.Record(ks, vs)
}

func mutateKeep(r *mon.Rand, in model.Val) model.Val {
	if r.P(0.5) {
		return in
	}
	ks := append([]string{}, in.Keys...)
	vs := append([]model.Val{}, in.Vals...)
	ks = append(ks, c13Key(r))
	vs = append(vs, c13Scalar(r))
	return model.Record(ks, vs)
}

// c13Val draws a value of the C13 universe (never containing an escape-like record).
func c13Val(r *mon.Rand, depth int) model.Val {
	for try := 0; try < 20; try++ {
		v := c13ValRaw(r, depth)
		if !hasEscapeLike(v, true) {
			return v
		}
	}
	return model.Long(0)
}

func c13ValRaw(r *mon.Rand, depth int) model.Val {
	if r.P(0.10) {
		return randLookalike(r)
	}
	if depth <= 0 || r.P(0.5) {
		if r.P(0.1) {
			return mon.Pick(r, gen.Collide())
		}
		return c13Scalar(r)
	}
	n := r.Intn(5)
	if r.Bool() {
		xs := make([]model.Val, n)
		homog := r.P(0.5)
		hk := gen.RandKind(r)
		for i := range xs {
			if homog && hk != model.KSet && hk != model.KRecord {
				xs[i] = gen.RandScalarOf(r, hk)
			} else {
				xs[i] = c13ValRaw(r, depth-1)
			}
		}
		return model.Set(xs...)
	}
	ks := make([]string, n)
	vs := make([]model.Val, n)
	for i := range ks {
		ks[i] = c13Key(r)
		vs[i] = c13ValRaw(r, depth-1)
	}
	return model.Record(ks, vs)
}

func c13Record(r *mon.Rand, depth int) model.Val {
	for try := 0; try < 20; try++ {
		n := r.Intn(5)
		ks := make([]string, n)
		vs := make([]model.Val, n)
		for i := range ks {
			ks[i] = c13Key(r)
			vs[i] = c13ValRaw(r, depth-1)
		}
		v := model.Record(ks, vs)
		if !hasEscapeLike(v, false) {
			return v
		}
	}
	return model.Rec()
}

func c13UID(r *mon.Rand) model.Val {
	if r.P(0.7) {
		return gen.RandUID(r)
	}
	return model.Ent(mon.Pick(r, gen.EntityTypes), c13String(r))
}

func c13Entity(r *mon.Rand) *model.Entity {
	e := &model.Entity{UID: c13UID(r)}
	for n := r.Intn(5); n > 0; n-- {
		e.Parents = append(e.Parents, c13UID(r))
	}
	if r.P(0.1) {
		e.Parents = append(e.Parents, e.UID) // self parent
	}
	e.Parents = model.Set(e.Parents...).Elems
	e.Attrs = c13Record(r, 3)
	e.Tags = model.Rec()
	if r.P(0.6) {
		e.Tags = c13Record(r, 2)
	}
	return e
}

// ---------------------------------------------------------------- classes for signatures

func is4in6(ip model.IPVal) bool {
	return ip.V6 && ip.Hi == 0 && ip.Lo>>32 == 0xffff
}

func stringClass(s string) string {
	c := "ascii"
	rank := 0
	up := func(n int, name string) {
		if n > rank {
			rank, c = n, name
		}
	}
	if s == "" {
		return "empty"
	}
	for _, r := range s {
		switch {
		case r == 0xFFFD:
			up(5, "U+FFFD")
		case r > 0xFFFF:
			up(4, "astral")
		case r < 0x20 || r == 0x7f:
			up(3, "control")
		case r >= 0x80:
			up(2, "non-ascii-bmp")
		case r == '"' || r == '\\' || r == '<' || r == '>' || r == '&' || r == '/':
			up(1, "json-special")
		}
	}
	return c
}

// lookalikeClasses lists, per magic key carried by the record v (exactly or in another letter
// case), how the member resembles an escape. Empty if v is not such a record.
func lookalikeClasses(v model.Val) []string {
	if v.K != model.KRecord {
		return nil
	}
	var out []string
	for _, magic := range []string{"__entity", "__extn"} {
		for _, k := range v.Keys {
			if k != magic && strings.EqualFold(k, magic) {
				out = append(out, magic+":case-variant-key")
				break
			}
		}
		in, ok := v.Get(magic)
		if !ok {
			continue
		}
		switch in.K {
		case model.KEntity, model.KDecimal, model.KIP, model.KDatetime, model.KDuration:
			out = append(out, magic+":bound-to-escaped-value") // the member's JSON is itself an escape object
		}
		if in.K != model.KRecord {
			continue
		}
		need := []string{"type", "id"}
		if magic == "__extn" {
			need = []string{"fn", "arg"}
		}
		missing, nonString, caseVariant := false, false, false
		for _, k := range need {
			x, ok := in.Get(k)
			if !ok {
				missing = true
				for _, k2 := range in.Keys {
					if strings.EqualFold(k, k2) {
						caseVariant = true
					}
				}
			} else if !isStr(x) {
				nonString = true
			}
		}
		_, hasFn := in.Get("fn")
		cl := "complete"
		switch {
		case nonString:
			cl = "inner-member-not-a-string"
		case missing && magic == "__extn" && hasFn:
			cl = "inner-fn-without-arg"
		case caseVariant:
			cl = "inner-member-names-in-other-case"
		case missing && magic == "__extn":
			cl = "inner-without-fn"
		case missing:
			cl = "inner-members-missing"
		}
		out = append(out, magic+":"+cl)
	}
	return out
}

func lookalikeClass(v model.Val) string { return strings.Join(lookalikeClasses(v), "+") }

// noNewLookalikeClass: every look-alike class of c is one of v's (shrinking may drop a magic
// key but must not turn one sub-defect into another).
func noNewLookalikeClass(c, v model.Val) bool {
	have := map[string]bool{}
	for _, x := range lookalikeClasses(v) {
		have[x] = true
	}
	for _, x := range lookalikeClasses(c) {
		if !have[x] {
			return false
		}
	}
	return true
}

func c13Class(v model.Val) string {
	switch v.K {
	case model.KDatetime:
		if v.I < dtLowBound {
			return "datetime-first-day-of-range"
		}
	case model.KIP:
		if is4in6(v.IP) {
			return "ip(v4-mapped-v6)"
		}
	case model.KString:
		return "string(" + stringClass(v.S) + ")"
	case model.KEntity:
		return "entity(id:" + stringClass(v.ID) + ")"
	case model.KRecord:
		if la := lookalikeClass(v); la != "" {
			return "record-lookalike(" + la + ")"
		}
	}
	if v.K == model.KSet || v.K == model.KRecord {
		seen := map[string]bool{}
		for _, e := range append(append([]model.Val{}, v.Elems...), v.Vals...) {
			seen[c13ClassShallow(e)] = true
		}
		for _, k := range v.Keys {
			seen["key:"+stringClass(k)] = true
		}
		cs := sortedKeys(seen)
		if len(cs) > 4 {
			cs = append(cs[:4], "...")
		}
		return feature(v) + "[" + strings.Join(cs, ",") + "]"
	}
	return feature(v)
}

func c13ClassShallow(v model.Val) string {
	if v.K == model.KSet || v.K == model.KRecord {
		if la := lookalikeClass(v); la != "" {
			return "record-lookalike(" + la + ")"
		}
		return feature(v)
	}
	return c13Class(v)
}

// ---------------------------------------------------------------- shrinker

func withoutIdx(v model.Val, i int) model.Val {
	if v.K == model.KSet {
		xs := append(append([]model.Val{}, v.Elems[:i]...), v.Elems[i+1:]...)
		return model.Set(xs...)
	}
	ks := append(append([]string{}, v.Keys[:i]...), v.Keys[i+1:]...)
	vs := append(append([]model.Val{}, v.Vals[:i]...), v.Vals[i+1:]...)
	return model.Record(ks, vs)
}

func withChild(v model.Val, i int, c model.Val) model.Val {
	if v.K == model.KSet {
		xs := append([]model.Val{}, v.Elems...)
		xs[i] = c
		return model.Set(xs...)
	}
	vs := append([]model.Val{}, v.Vals...)
	vs[i] = c
	return model.Record(append([]string{}, v.Keys...), vs)
}

// shrinkCands lists strictly smaller variants of v (one step).
func shrinkCands(v model.Val) []model.Val {
	var out []model.Val
	switch v.K {
	case model.KSet:
		out = append(out, v.Elems...)
		for i := range v.Elems {
			out = append(out, withoutIdx(v, i))
		}
	case model.KRecord:
		out = append(out, v.Vals...)
		for i := range v.Keys {
			out = append(out, withoutIdx(v, i))
		}
		if _, has := v.Get("k"); !has {
			for i := range v.Keys {
				ks := append([]string{}, v.Keys...)
				ks[i] = "k"
				out = append(out, model.Record(ks, v.Vals))
			}
		}
		for i, k := range v.Keys {
			if rs := []rune(k); len(rs) > 1 {
				for _, c := range rs {
					ks := append([]string{}, v.Keys...)
					ks[i] = string(c)
					out = append(out, model.Record(ks, v.Vals))
				}
			}
		}
	case model.KString:
		out = append(out, model.Str("a"))
		if rs := []rune(v.S); len(rs) > 1 {
			for _, c := range rs {
				out = append(out, model.Str(string(c)))
			}
		}
	case model.KEntity:
		out = append(out, model.Ent(v.T, "a"))
		if rs := []rune(v.ID); len(rs) > 1 {
			for _, c := range rs {
				out = append(out, model.Ent(v.T, string(c)))
			}
		}
	}
	return out
}

func valSize(v model.Val) int {
	n := 1 + len(v.S) + len(v.ID)
	for _, e := range v.Elems {
		n += valSize(e)
	}
	for i, e := range v.Vals {
		n += valSize(e) + len(v.Keys[i])
	}
	return n
}

// shrinkVal greedily minimises v while fails(v) holds; candidates outside the domain (exact
// escape records) are never proposed. root=false means v itself may be escape-like
// (top-level attrs/tags/context records are decoded as records unconditionally).
func shrinkVal(v model.Val, fails func(model.Val) bool) model.Val {
	budget := 400
	for budget > 0 {
		moved := false
		try := func(c model.Val) bool {
			budget--
			if valSize(c) >= valSize(v) || hasEscapeLike(c, true) || !fails(c) {
				return false
			}
			v = c
			return true
		}
		for _, c := range shrinkCands(v) {
			if try(c) {
				moved = true
				break
			}
		}
		if !moved {
			// replace one child by a one-step shrink of it
			n := len(v.Elems) + len(v.Vals)
		outer:
			for i := 0; i < n; i++ {
				ch := model.Val{}
				if v.K == model.KSet {
					ch = v.Elems[i]
				} else {
					ch = v.Vals[i]
				}
				for _, cc := range append([]model.Val{model.Bool(true)}, shrinkCands(ch)...) {
					if try(withChild(v, i, cc)) {
						moved = true
						break outer
					}
				}
			}
		}
		if !moved {
			break
		}
	}
	return v
}

func entityString(e *model.Entity) string {
	ps := make([]string, len(e.Parents))
	for i, p := range e.Parents {
		ps[i] = p.String()
	}
	return fmt.Sprintf("%s parents=[%s] attrs=%s tags=%s", e.UID, strings.Join(ps, ", "), e.Attrs, e.Tags)
}

func entityEqual(a, b *model.Entity) bool {
	return a.UID.Equal(b.UID) && model.Set(a.Parents...).Equal(model.Set(b.Parents...)) && a.Attrs.Equal(b.Attrs) && a.Tags.Equal(b.Tags)
}

func sortedEntities(m map[string]*model.Entity) []*model.Entity {
	ks := make([]string, 0, len(m))
	for k := range m {
		ks = append(ks, k)
	}
	sort.Strings(ks)
	out := make([]*model.Entity, len(ks))
	for i, k := range ks {
		out[i] = m[k]
	}
	return out
}
