package props

import (
	"fmt"
	"reflect"

	cedar "github.com/cedar-policy/cedar-go"
	"github.com/cedar-policy/cedar-go/types"
	"github.com/cedar-policy/cedar-go/x/exp/ast"
	"github.com/cedar-policy/cedar-go/x/exp/eval"
	"github.com/cedar-policy/cedar-go/x/exp/verifhooks"

	"verif/internal/bridge"
	"verif/internal/gen"
	"verif/internal/model"
	"verif/internal/mon"
	"verif/internal/render"
)

func init() { Registry["C04"] = C04 }

// Fingerprint is a deterministic deep rendering of a Go value (maps are printed sorted by fmt).
func Fingerprint(v any) string { return fmt.Sprintf("%#v", v) }

// outcomeDirect evaluates the original tree through the un-optimised evaluator.
func outcomeDirect(p *ast.Policy, env eval.Env) (o model.Outcome, detail string) {
	defer func() {
		if r := recover(); r != nil {
			o, detail = model.Erroring, fmt.Sprintf("PANIC %v", r)
		}
	}()
	v, err := eval.Eval(eval.PolicyToNode(p).AsIsNode(), env)
	if err != nil {
		return model.Erroring, err.Error()
	}
	b, ok := v.(types.Boolean)
	if !ok {
		return model.Erroring, fmt.Sprintf("non-boolean %v", v)
	}
	if b {
		return model.Sat, ""
	}
	return model.Unsat, ""
}

// outcomeCompiled runs the compiled policy through the authorizer.
func outcomeCompiled(cp *cedar.Policy, ents types.EntityGetter, req cedar.Request) (o model.Outcome, detail string) {
	defer func() {
		if r := recover(); r != nil {
			o, detail = model.Erroring, fmt.Sprintf("PANIC %v", r)
		}
	}()
	ps := cedar.NewPolicySet()
	ps.Add("p", cp)
	_, d := cedar.Authorize(ps, ents, req)
	switch {
	case len(d.Errors) > 0:
		return model.Erroring, d.Errors[0].Message
	case len(d.Reasons) > 0:
		return model.Sat, ""
	}
	return model.Unsat, ""
}

// c04policy draws a policy biased to what the folder touches.
func c04policy(r *gen.R) *model.Policy {
	cfg := gen.ExprCfg{PIll: 0.08, SafeDT: true}
	p := &model.Policy{Permit: r.Bool(), P: gen.RandScope(r, 0), A: gen.RandScope(r, 1), R: gen.RandScope(r, 2)}
	if r.P(0.5) {
		p.P, p.A, p.R = model.Scope{}, model.Scope{}, model.Scope{}
	}
	nc := 1 + r.Intn(3)
	for i := 0; i < nc; i++ {
		c := cfg
		switch r.Intn(4) {
		case 0, 1:
			c.NoVars = true // closed: everything is a folding candidate
		case 2:
			c.NoVars = true
			c.PIll = 0.25 // closed with erroring / ill-typed parts
		}
		g := &gen.G{R: r, Cfg: c}
		k := model.KBool
		if r.P(0.05) {
			k = gen.RandKind(r)
		}
		body := g.Expr(1+r.Intn(5), k)
		if r.P(0.3) {
			// short-circuit with a skipped ill-typed / erroring operand, or store-dependent constants
			g2 := &gen.G{R: r, Cfg: gen.ExprCfg{PIll: 0.5, NoVars: true, SafeDT: true}}
			junk := g2.Expr(2, gen.RandKind(r))
			u := gen.RandUID(r)
			storeDep := []*model.Expr{
				model.Has(model.Lit(u), mon.Pick(r, gen.AttrNames)),
				model.Bin(model.OEq, model.Access(model.Lit(u), "a"), model.Lit(model.Long(1))),
				model.Bin(model.OIn, model.Lit(u), model.Lit(gen.RandUID(r))),
				model.Bin(model.OHasTag, model.Lit(u), model.Lit(model.Str(gen.RandString(r)))),
				model.IsIn(model.Lit(u), u.T, model.Lit(gen.RandUID(r))),
				model.Bin(model.OIn, model.Lit(u), model.SetE(model.Lit(gen.RandUID(r)), model.Lit(gen.RandUID(r)))),
			}
			switch r.Intn(15) {
			case 12, 13, 14:
				// a projection out of a composite literal one of whose OTHER members fails or
				// depends on the request: the whole literal is evaluated before the projection
				sib := junk
				if r.Bool() {
					sib = model.Access(model.Var("context"), mon.Pick(r, []string{"no_such_attribute", "a", "b"}))
				}
				if r.Bool() {
					sib = model.Bin(model.OAdd, model.Lit(model.Long(9223372036854775807)), model.Lit(model.Long(int64(r.Intn(2)))))
				}
				konst := model.Lit(mon.Pick(r, []model.Val{model.Bool(true), model.Long(1), model.Str("s")}))
				keys, vals := []string{"sel", "sib"}, []*model.Expr{konst, sib}
				if r.Bool() {
					keys, vals = []string{"a", "sel"}, []*model.Expr{sib, konst}
				}
				switch r.Intn(5) {
				case 0:
					body = model.Bin(model.OEq, model.Access(model.RecE(keys, vals), "sel"), konst)
				case 1:
					body = model.Has(model.RecE(keys, vals), "sel")
				case 2:
					body = model.Un(model.ONot, model.Un(model.OIsEmpty, model.SetE(konst, sib)))
				case 3:
					body = model.Bin(model.OContains, model.SetE(konst, sib), konst)
				default:
					body = model.Bin(model.OEq, model.Access(model.Access(model.RecE([]string{"outer"}, []*model.Expr{model.RecE(keys, vals)}), "outer"), "sel"), konst)
				}
			case 9:
				// absorbing constant on the RIGHT of a request/store-dependent left operand that may fail
				gv := &gen.G{R: r, Cfg: gen.ExprCfg{PIll: 0.15, SafeDT: true}}
				left := gv.Expr(1+r.Intn(2), model.KBool)
				if r.Bool() {
					base := model.Access(model.Var(mon.Pick(r, []string{"context", "principal", "resource"})), mon.Pick(r, gen.AttrNames))
					left = model.Has(base, mon.Pick(r, gen.AttrNames))
				}
				if r.Bool() {
					body = model.Bin(model.OOr, left, model.Lit(model.Bool(true)))
				} else {
					body = model.Bin(model.OAnd, left, model.Lit(model.Bool(false)))
				}
			case 10:
				// reflexive membership with an ill-typed set member
				switch r.Intn(3) {
				case 0:
					body = model.Bin(model.OIn, model.Lit(u), model.SetE(model.Lit(u), junk))
				case 1:
					body = model.Bin(model.OIn, model.Lit(u), model.Lit(model.Set(u, gen.RandVal(r, 1))))
				default:
					body = model.IsIn(model.Lit(u), u.T, model.SetE(junk, model.Lit(u)))
				}
			case 11:
				body = model.Bin(mon.Pick(r, []model.Op{model.OAnd, model.OOr}), mon.Pick(r, storeDep), model.Lit(model.Bool(r.Bool())))
			case 6:
				// a short-circuit operator whose *evaluated* right operand is not boolean, below a
				// parent that does not itself demand a boolean
				inner := model.Bin(model.OAnd, model.Lit(model.Bool(true)), junk)
				body = model.Bin(mon.Pick(r, []model.Op{model.OEq, model.ONe}), inner, g2.Expr(1, gen.RandKind(r)))
			case 7:
				inner := model.Bin(model.OOr, model.Lit(model.Bool(false)), junk)
				body = model.Bin(model.OContains, model.SetE(inner, g2.Expr(1, gen.RandKind(r))), junk)
			case 8:
				inner := model.If(model.Lit(model.Bool(r.Bool())), junk, g2.Expr(1, gen.RandKind(r)))
				body = model.Bin(model.OEq, model.RecE([]string{"k"}, []*model.Expr{inner}), model.RecE([]string{"k"}, []*model.Expr{junk}))
			case 0:
				body = model.Bin(model.OAnd, model.Lit(model.Bool(false)), junk)
			case 1:
				body = model.Bin(model.OOr, model.Lit(model.Bool(true)), junk)
			case 2:
				body = model.Bin(model.OAnd, body, junk)
			case 3:
				body = model.If(model.Lit(model.Bool(r.Bool())), body, junk)
			case 4:
				body = model.Bin(mon.Pick(r, []model.Op{model.OAnd, model.OOr}), mon.Pick(r, storeDep), body)
			default:
				body = model.Bin(model.OOr, body, mon.Pick(r, storeDep))
			}
		}
		p.Conds = append(p.Conds, model.Cond{When: r.P(0.7), Body: body})
	}
	return p
}

func C04(c *mon.Ctx) {
	c.Rule = "case = (policy, environment). For each generated policy (conditions biased to closed sub-trees, closed erroring sub-trees, short-circuit operators with skipped ill-typed operands, store-dependent constants) and each of 8 environments (empty store + 7 stores built from the policy's own entity literals/attributes so store-dependent constants take both truth values): " +
		"outcome class {satisfied, unsatisfied, erroring} of the compiled policy (NewPolicyFromAST -> Authorize) must equal direct evaluation of the original tree (x/exp/eval.Eval(PolicyToNode(p))); the hook-exposed folded AST evaluated without re-folding must agree too; the reference evaluator arbitrates in the report. " +
		"The caller's AST must be deep-equal before/after compilation and authorization, and Policy.MarshalCedar/MarshalJSON/AST() must equal those of the untouched AST. distinct_nontrivial = distinct policies whose tree the folder actually changed (hook)."
	c.Assume = []string{"direct evaluation of the original tree is the property's own reference", "datetime literals below cedar-go's recorded lower parsing bound are not spelled (known finding, C01)"}
	c.Floor = 500
	n := c.N(30000, 600000)
	c.ParFor("policies", n, func(w *mon.W, i int) {
		r := w.Rand()
		mp := c04policy(r)
		c04check(w, r, mp, i)
		if tw, ok := c04twin(mp); ok {
			w.Count("type-confused twin compiled right after its original")
			c04check(w, r, tw, -1)
		}
	})
}

func c04check(w *mon.W, r *gen.R, mp *model.Policy, i int) {
	p := bridge.ToPolicy(mp)
	ref := bridge.ToPolicy(mp) // never handed to cedar-go's compiler
	fp0 := Fingerprint(p)
	if fp0 != Fingerprint(ref) {
		w.Violation("harness:nondeterministic-fingerprint", "two identical ASTs fingerprint differently", nil)
		return
	}
	refPub := (*cedarASTPolicy)(ref)
	text0 := string(refPub.MarshalCedar())
	json0, jerr0 := refPub.MarshalJSON()
	cp := NewPolicy(p)
	folded := verifhooks.FoldPolicy(ref)
	changed := Fingerprint(folded) != fp0
	if Fingerprint(ref) != fp0 {
		w.Violation("fold mutates its input AST", "FoldPolicy changed the AST it was given", map[string]any{"policy": render.CanonPolicy(mp)})
	}
	if changed {
		w.NonTrivial(render.CanonPolicy(mp))
		w.Count("folder changed the tree")
		for _, cd := range mp.Conds {
			w.Count("fold-candidate root op " + opName(cd.Body))
		}
	} else {
		w.Count("folder left the tree unchanged")
	}
	var m gen.Mentions
	gen.CollectPolicy(&m, mp)
	for k := 0; k < 8; k++ {
		env := gen.EnvFor(r, &m, k == 0)
		ents := bridge.ToEntityMap(env)
		cenv := bridge.ToEvalEnv(env, ents)
		req := bridge.ToRequest(env)
		od, dd := outcomeDirect(ref, cenv)
		oc, dc := outcomeCompiled(cp, ents, req)
		of, df := outcomeDirect(folded, cenv)
		w.Evals(1)
		w.Count("outcome " + od.String())
		if oc != od || of != od {
			om, _ := model.PolicyOutcome(mp, env)
			which := "compiled"
			bad, det := oc, dc
			if oc == od {
				which, bad, det = "folded-ast", of, df
			}
			// localise: which condition's fold differs
			culprit := "?"
			for ci, cd := range mp.Conds {
				one := &ast.Policy{Effect: ast.EffectPermit, Principal: ast.ScopeTypeAll{}, Action: ast.ScopeTypeAll{}, Resource: ast.ScopeTypeAll{},
					Conditions: []ast.ConditionType{{Condition: ast.ConditionWhen, Body: bridge.ToNode(cd.Body)}}}
				o1, _ := outcomeDirect(one, cenv)
				o2, _ := outcomeDirect(verifhooks.FoldPolicy(one), cenv)
				if o1 != o2 {
					culprit = fmt.Sprintf("condition %d root %s", ci, opName(cd.Body))
					break
				}
			}
			w.Violation(fmt.Sprintf("%s: direct=%s optimised=%s", which, od, bad),
				fmt.Sprintf("policy `%s`: direct evaluation is %s (%s) but the %s form is %s (%s); reference model says %s; %s", render.CanonPolicy(mp), od, dd, which, bad, det, om, culprit),
				map[string]any{"policy": render.CanonPolicy(mp), "env": envWitness(env), "direct": od.String() + " " + dd, "optimised": bad.String() + " " + det, "model": om.String(), "culprit": culprit})
			break
		}
	}
	// the caller-visible AST and renderings are untouched
	if fp := Fingerprint(p); fp != fp0 {
		w.Violation("compile/authorize mutates the caller's AST", "the ast.Policy given to NewPolicyFromAST changed", map[string]any{"policy": render.CanonPolicy(mp), "before": fp0, "after": fp})
	}
	if got := string(cp.MarshalCedar()); got != text0 {
		w.Violation("Policy.MarshalCedar differs from the untouched AST's", "compiled policy renders differently", map[string]any{"want": text0, "got": got})
	}
	if got, err := cp.MarshalJSON(); (err != nil) != (jerr0 != nil) || string(got) != string(json0) {
		w.Violation("Policy.MarshalJSON differs from the untouched AST's", "compiled policy encodes differently", map[string]any{"want": string(json0), "got": string(got)})
	}
	if !reflect.DeepEqual((*ast.Policy)(cp.AST()), ref) {
		w.Violation("Policy.AST() differs from the original AST", "Policy.AST() is not the tree that was compiled", map[string]any{"policy": render.CanonPolicy(mp)})
	}
	if i >= 0 && i%3000 == 0 {
		w.Sample("policy", map[string]any{"policy": render.CanonPolicy(mp), "folder_changed_tree": changed})
	}
}

// c04twin builds a "type-confused twin": the first extension-typed literal / constructor call
// is replaced by the plain string that prints the same. Compiling the twin right after its
// original exposes compile-time caches keyed on printed forms.
func c04twin(mp *model.Policy) (*model.Policy, bool) {
	done := false
	var rw func(e *model.Expr) *model.Expr
	rw = func(e *model.Expr) *model.Expr {
		if !done {
			if e.Op == model.OExt && len(e.Args) == 1 && e.Args[0].Op == model.OLit && e.Args[0].V.K == model.KString {
				if _, ok := model.ExtArity[e.S]; ok && !model.ExtArity[e.S].Method {
					done = true
					return e.Args[0]
				}
			}
			if e.Op == model.OLit {
				switch e.V.K {
				case model.KDecimal:
					done = true
					return model.Lit(model.Str(model.PrintDecimal(e.V.I)))
				case model.KIP:
					done = true
					return model.Lit(model.Str(model.PrintIP(e.V.IP)))
				case model.KDuration:
					done = true
					return model.Lit(model.Str(model.PrintDuration(e.V.I)))
				case model.KDatetime:
					done = true
					return model.Lit(model.Str(model.PrintDatetime(e.V.I)))
				}
			}
		}
		c := *e
		c.Args = make([]*model.Expr, len(e.Args))
		for i, a := range e.Args {
			c.Args[i] = rw(a)
		}
		return &c
	}
	tw := *mp
	tw.Conds = make([]model.Cond, len(mp.Conds))
	for i, cd := range mp.Conds {
		tw.Conds[i] = model.Cond{When: cd.When, Body: rw(cd.Body)}
	}
	return &tw, done
}
