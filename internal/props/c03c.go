package props

import (
	"fmt"

	cedar "github.com/cedar-policy/cedar-go"
	"github.com/cedar-policy/cedar-go/types"
	"github.com/cedar-policy/cedar-go/x/exp/ast"

	"verif/internal/mon"
)

// conditions: the operator forms inside a when-clause of a policy that goes through the
// compiled path (cedar.Authorize compiles and constant-folds conditions, so membership tests
// between two literals are decided by different code than eval.Eval on the bare node).
func (r *c03runner) conditions() {
	n := r.g.n
	when := func(body ast.IsNode) *ast.Policy {
		return &ast.Policy{Effect: ast.EffectPermit, Principal: ast.ScopeTypeAll{}, Action: ast.ScopeTypeAll{}, Resource: ast.ScopeTypeAll{},
			Conditions: []ast.ConditionType{{Condition: ast.ConditionWhen, Body: body}}}
	}
	in := func(l, rr ast.IsNode) ast.IsNode { return ast.NodeTypeIn{BinaryNode: ast.BinaryNode{Left: l, Right: rr}} }
	principal := ast.NodeTypeVariable{Name: "principal"}
	for s := 0; s < n; s++ {
		rs := r.g.reach(s)
		for t := 0; t < n; t++ {
			want := rs&(1<<t) != 0
			r.authz("when { literal in literal }", when(in(uidNode(s), uidNode(t))), s, 1<<t, want)
			r.authz("when { principal in literal }", when(in(principal, uidNode(t))), s, 1<<t, want)
			r.authz("when { literal is <own type> in literal }", when(ast.NodeTypeIsIn{NodeTypeIs: ast.NodeTypeIs{Left: uidNode(s), EntityType: c03uids[s].Type}, Entity: uidNode(t)}), s, 1<<t, want)
			r.authz("when { !(literal in literal) } negated", when(ast.NodeTypeNot{UnaryNode: ast.UnaryNode{Arg: in(uidNode(s), uidNode(t))}}), s, 1<<t, !want)
		}
		for sub := uint16(0); sub < 1<<n; sub++ {
			var vals []types.Value
			var nodes []ast.IsNode
			for j := 0; j < n; j++ {
				if sub&(1<<j) != 0 {
					vals = append(vals, c03uids[j])
					nodes = append(nodes, uidNode(j))
				}
			}
			want := rs&sub != 0
			r.authz("when { literal in set-value }", when(in(uidNode(s), ast.NodeValue{Value: types.NewSet(vals...)})), s, sub, want)
			r.authz("when { literal in [set literal] }", when(in(uidNode(s), ast.NodeTypeSet{Elements: nodes})), s, sub, want)
			r.authz("when { principal in [set literal] }", when(in(principal, ast.NodeTypeSet{Elements: nodes})), s, sub, want)
		}
	}
}

// c03sameObject: ONE policy set object, compiled once, is asked the same question against
// every store in turn (all digraphs on 3 nodes x all presence subsets, in two orders). The
// answer depends on the store handed to the call, not on what an earlier call saw.
func c03sameObject(c *mon.Ctx) {
	const n = 3
	when := func(body ast.IsNode) *ast.Policy {
		return &ast.Policy{Effect: ast.EffectPermit, Principal: ast.ScopeTypeAll{}, Action: ast.ScopeTypeAll{}, Resource: ast.ScopeTypeAll{},
			Conditions: []ast.ConditionType{{Condition: ast.ConditionWhen, Body: body}}}
	}
	in := func(l, rr ast.IsNode) ast.IsNode { return ast.NodeTypeIn{BinaryNode: ast.BinaryNode{Left: l, Right: rr}} }
	principal := ast.NodeTypeVariable{Name: "principal"}
	type form struct {
		name string
		mk   func(s, t int) *ast.Policy
		set  bool // target is {t, t+1 mod n}
	}
	forms := []form{
		{"when { principal in literal }", func(s, t int) *ast.Policy { return when(in(principal, uidNode(t))) }, false},
		{"when { literal in literal }", func(s, t int) *ast.Policy { return when(in(uidNode(s), uidNode(t))) }, false},
		{"when { principal is <own type> in literal }", func(s, t int) *ast.Policy {
			return when(ast.NodeTypeIsIn{NodeTypeIs: ast.NodeTypeIs{Left: principal, EntityType: c03uids[s].Type}, Entity: uidNode(t)})
		}, false},
		{"when { principal in [set literal] }", func(s, t int) *ast.Policy {
			return when(in(principal, ast.NodeTypeSet{Elements: []ast.IsNode{uidNode(t), uidNode((t + 1) % n)}}))
		}, true},
		{"scope principal in E", func(s, t int) *ast.Policy {
			return &ast.Policy{Effect: ast.EffectPermit, Principal: ast.ScopeTypeIn{Entity: c03uids[t]}, Action: ast.ScopeTypeAll{}, Resource: ast.ScopeTypeAll{}}
		}, false},
		{"scope resource is <own type> in E", func(s, t int) *ast.Policy {
			return &ast.Policy{Effect: ast.EffectPermit, Principal: ast.ScopeTypeAll{}, Action: ast.ScopeTypeAll{}, Resource: ast.ScopeTypeIsIn{Type: c03uids[s].Type, Entity: c03uids[t]}}
		}, false},
		{"scope action in [set]", func(s, t int) *ast.Policy {
			return &ast.Policy{Effect: ast.EffectPermit, Principal: ast.ScopeTypeAll{}, Action: ast.ScopeTypeInSet{Entities: []types.EntityUID{c03uids[t], c03uids[(t+1)%n]}}, Resource: ast.ScopeTypeAll{}}
		}, true},
	}
	c.ParFor("same-policy-object-across-stores", len(forms)*n*n*2, func(w *mon.W, i int) {
		f, s, t, rev := forms[i%len(forms)], (i/len(forms))%n, (i/(len(forms)*n))%n, i/(len(forms)*n*n) == 1
		ps := cedar.NewPolicySet()
		ps.Add("p", cedar.NewPolicyFromAST((*cedarASTPolicy)(f.mk(s, t))))
		targets := uint16(1) << t
		if f.set {
			targets |= 1 << ((t + 1) % n)
		}
		total := (1 << (n * n)) * (1 << n)
		for k := 0; k < total; k++ {
			j := k
			if rev {
				j = total - 1 - k
			}
			g := fromBits(n, uint64(j>>n), uint16(j&(1<<n-1)))
			r := newC03runner(w, g)
			want := g.reach(s)&targets != 0
			r.getter.Calls, r.getter.Budget = 0, r.budget()
			var got bool
			var bad string
			func() {
				defer func() {
					if x := recover(); x != nil {
						bad = fmt.Sprintf("panic or budget: %v", x)
					}
				}()
				dec, diag := cedar.Authorize(ps, r.getter, cedar.Request{Principal: c03uids[s], Action: c03uids[s], Resource: c03uids[s]})
				if len(diag.Errors) > 0 {
					bad = "error: " + diag.Errors[0].Message
				}
				got = dec == cedar.Allow
			}()
			w.Evals(1)
			if bad != "" || got != want {
				r.report(f.name+", one policy object asked against many stores in turn", s, targets, got, bad, want)
				return
			}
		}
		w.Count("one compiled policy object evaluated against all 3-node stores")
		w.NonTrivial(fmt.Sprintf("same-object/%d", i))
	})
}

// afterFailure: every set-valued query again, each one directly after a membership test that
// fails with a type error (a target set with a non-entity member next to entity j). The
// answer to a query is a function of the store and the query; whatever an earlier, failed
// evaluation left behind must not leak into it.
func (r *c03runner) afterFailure() {
	n := r.g.n
	for s := 0; s < n; s++ {
		rs := r.g.reach(s)
		for sub := uint16(0); sub < 1<<n; sub++ {
			var vals []types.Value
			var es []types.EntityUID
			for j := 0; j < n; j++ {
				if sub&(1<<j) != 0 {
					vals = append(vals, c03uids[j])
					es = append(es, c03uids[j])
				}
			}
			want := rs&sub != 0
			for j := 0; j < n; j++ {
				if sub&(1<<j) != 0 {
					continue // a stale j could not change this answer
				}
				poison := ast.NodeTypeIn{BinaryNode: ast.BinaryNode{Left: uidNode(s), Right: ast.NodeValue{Value: types.NewSet(c03uids[j], types.String("oops"))}}}
				if _, bad := r.evalBool(poison); bad == "" {
					r.w.Count("membership test against a set with a non-entity member did not fail")
				}
				got, bad := r.evalBool(ast.NodeTypeIn{BinaryNode: ast.BinaryNode{Left: uidNode(s), Right: ast.NodeValue{Value: types.NewSet(vals...)}}})
				r.w.Evals(2)
				if bad != "" || got != want {
					r.report("a in set-value, directly after a failed membership test", s, sub, got, bad, want)
				}
				r.evalBool(poison)
				p := &ast.Policy{Effect: ast.EffectPermit, Principal: ast.ScopeTypeAll{}, Action: ast.ScopeTypeInSet{Entities: es}, Resource: ast.ScopeTypeAll{}}
				r.authz("scope action in [set], directly after a failed membership test", p, s, sub, want)
			}
		}
	}
}
