package props

import (
	"bytes"
	"fmt"
	"reflect"

	"github.com/cedar-policy/cedar-go/x/exp/schema"

	"verif/internal/mon"
)

// Additional C17 stream: the LIFE of one Schema value. The round-trip streams render each
// schema once per path. Here one value is rendered to text and JSON and resolved many times
// in random order (every rendering byte-identical to the first, every resolution deep-equal to
// the first: a renderer must not reorder or normalise the schema it is handed), the bytes it
// returned are kept un-copied, and the value is then given another schema and rendered again
// (bytes handed out earlier still spell the first schema). Schemas list parents, principals,
// resources, action groups, enum values and attributes out of lexical order.
func init() {
	orig := Registry["C17"]
	Registry["C17"] = func(c *mon.Ctx) {
		orig(c)
		c.Rule += " Stream lifecycle: one Schema value holding A (9 texts with lists out of lexical order) is rendered to text / JSON and resolved 12 times in random order (each byte-identical / deep-equal to the first), then receives B by UnmarshalCedar or UnmarshalJSON and is rendered again; bytes returned earlier must still spell A, and the value must render and resolve as a fresh value holding B (all ordered pairs, both loaders)."
		c17lifecycle(c)
	}
}

var c17lifeTexts = []string{
	"entity Team, Org, Admins;\nentity User in [Team, Org, Admins] { name: String, age?: Long };\naction view appliesTo { principal: [User, Team], resource: [Org, Admins], context: { z: Long, a: String } };\n",
	"entity Z; entity M in [Z]; entity A in [Z, M];\naction write, read;\naction all in [write, read] appliesTo { principal: [Z, A, M], resource: [M, A] };\n",
	"namespace N { entity E in [G, F] tags String; entity G, F; action a appliesTo { principal: E, resource: [G, F], context: { when: Long } }; }\n",
	"type T = { z: Long, y?: Set<String>, a: { k: Bool } };\nentity U { t: T, s: Set<T> };\naction act appliesTo { principal: U, resource: U, context: T };\n",
	"entity Color enum [\"red\", \"green\", \"blue\"];\nentity Car in [Fleet, Brand] { color: Color };\nentity Fleet, Brand;\naction drive appliesTo { principal: Car, resource: [Fleet, Brand] };\n",
	"@doc(\"zeta\") @author(\"alpha\")\nentity D { @note(\"n\") x: Long };\n@z(\"1\") @a(\"2\")\naction \"do it\", go appliesTo { principal: D, resource: D };\n",
	"entity P in [R, Q]; entity Q in [R]; entity R;\naction g3; action g2 in [g3]; action g1 in [g3, g2]; action leaf in [g2, g1] appliesTo { principal: [R, P, Q], resource: [Q, P, R] };\n",
	"namespace B { entity X in [A::Y, B::W]; entity W; } namespace A { entity Y; action a appliesTo { principal: [B::X, A::Y], resource: [B::W, A::Y] }; }\n",
	"entity E;\n",
}

func c17lifecycle(c *mon.Ctx) {
	n := len(c17lifeTexts)
	c.ParFor("lifecycle", n*n*2*c.N(2, 8), func(w *mon.W, i int) {
		a, b, viaJSON := c17lifeTexts[i%n], c17lifeTexts[(i/n)%n], (i/(n*n))%2 == 1
		r := w.Rand()
		load := func(s *schema.Schema, text string, js bool) error {
			if !js {
				return s.UnmarshalCedar([]byte(text))
			}
			var t schema.Schema
			if err := t.UnmarshalCedar([]byte(text)); err != nil {
				return err
			}
			j, err := t.MarshalJSON()
			if err != nil {
				return err
			}
			return s.UnmarshalJSON(j)
		}
		fail := func(sig, what string) {
			w.Violation("lifecycle: "+sig, what, map[string]any{"first_schema": a, "second_schema": b, "second_loaded_from_json": viaJSON})
		}
		var s schema.Schema
		if err := load(&s, a, i%3 == 0); err != nil {
			w.Inconclusive("lifecycle: schema text does not load: " + err.Error())
			return
		}
		w.NonTrivial(fmt.Sprint("lifecycle/", i))
		c1, err1 := s.MarshalCedar()
		j1, err2 := s.MarshalJSON()
		r1, err3 := s.Resolve()
		if err1 != nil || err2 != nil || err3 != nil {
			w.Inconclusive(fmt.Sprint("lifecycle: first rendering fails: ", err1, err2, err3))
			return
		}
		c1, j1 = bytes.Clone(c1), bytes.Clone(j1)
		var keptC, keptJ [][]byte
		for k := 0; k < 12; k++ {
			w.Evals(1)
			switch r.Intn(3) {
			case 0:
				x, err := s.MarshalCedar()
				if err != nil || !bytes.Equal(x, c1) {
					fail("MarshalCedar of one value changes between calls", fmt.Sprintf("call %d: %q, first: %q (%v)", k, x, c1, err))
					return
				}
				keptC = append(keptC, x)
			case 1:
				x, err := s.MarshalJSON()
				if err != nil || !bytes.Equal(x, j1) {
					fail("MarshalJSON of one value changes between calls", fmt.Sprintf("call %d: %s, first: %s (%v)", k, x, j1, err))
					return
				}
				keptJ = append(keptJ, x)
			default:
				x, err := s.Resolve()
				if err != nil || !reflect.DeepEqual(x, r1) {
					fail("Resolve of one value changes between calls", fmt.Sprintf("call %d after renderings: resolved schema differs from the first resolution (%v)", k, err))
					return
				}
			}
		}
		if err := load(&s, b, viaJSON); err != nil {
			fail("loading a second schema into a used value fails", err.Error())
			return
		}
		c2, _ := s.MarshalCedar()
		j2, _ := s.MarshalJSON()
		r2, err := s.Resolve()
		for _, x := range keptC {
			if !bytes.Equal(x, c1) {
				fail("bytes returned by MarshalCedar change when the value is used again", fmt.Sprintf("kept rendering now reads %q, was %q", x, c1))
				return
			}
		}
		for _, x := range keptJ {
			if !bytes.Equal(x, j1) {
				fail("bytes returned by MarshalJSON change when the value is used again", fmt.Sprintf("kept rendering now reads %s, was %s", x, j1))
				return
			}
		}
		var f schema.Schema
		if e := load(&f, b, viaJSON); e != nil {
			return
		}
		fc, _ := f.MarshalCedar()
		fj, _ := f.MarshalJSON()
		fr, ferr := f.Resolve()
		if !bytes.Equal(c2, fc) || !bytes.Equal(j2, fj) {
			fail("a used value given a second schema renders differently from a fresh value", fmt.Sprintf("text %q vs %q", c2, fc))
			return
		}
		if (err == nil) != (ferr == nil) || (err == nil && !reflect.DeepEqual(r2, fr)) {
			fail("a used value given a second schema resolves differently from a fresh value", fmt.Sprint(err, " vs ", ferr))
		}
	})
}
