package props

// C13 - Entity, value and request JSON round-trip without loss.
//
// Oracle: values, entities, entity maps, requests and diagnostics are generated in the
// harness's own model representation. cedar-go objects are built from them through public
// constructors, encoded with cedar-go's MarshalJSON, and
//   (a) the encoding is read back by the harness's own reader (c13_json.go) and must denote the model object,
//   (b) cedar-go's decoder must return an object whose public accessors give back the model object,
//       that is Equal (cedar-go's own equality, both directions) and hashes like the original,
//   (c) re-encoding the decoded object must give byte-identical JSON (also after a second trip),
//   (d) every alternative spelling written by the harness's own writer (explicit escapes with
//       permuted members, other string escapes, whitespace, permuted / repeated set elements,
//       other literal spellings of the same extension value, implicit entity / extension forms
//       where the typed decoder or the schema allows them) must decode to an equal object.

import (
	"bytes"
	"encoding/json"
	"fmt"
	"runtime/debug"
	"strings"

	"github.com/cedar-policy/cedar-go/types"

	"verif/internal/bridge"
	"verif/internal/gen"
	"verif/internal/model"
	"verif/internal/mon"
)

func init() { Registry["C13"] = C13 }

// ---------------------------------------------------------------- guarded cedar-go calls

type c13Fail struct {
	Kind string         // short, stable kind of wrong observation
	Obs  map[string]any // observations for the witness
}

func guard(site *string, f func() error) (err error) {
	defer func() {
		if r := recover(); r != nil {
			*site = mon.PanicSite(debug.Stack())
			err = fmt.Errorf("panic: %v", r)
		}
	}()
	return f()
}

func cedarMarshal(x any) ([]byte, string, error) {
	var b []byte
	var site string
	err := guard(&site, func() error {
		var e error
		b, e = json.Marshal(x)
		return e
	})
	return b, site, err
}

func cedarUnmarshal(b []byte, into any) (string, error) {
	var site string
	err := guard(&site, func() error { return json.Unmarshal(b, into) })
	return site, err
}

func cedarDecodeValue(b []byte) (types.Value, string, error) {
	var v types.Value
	var site string
	err := guard(&site, func() error { return types.UnmarshalJSON(b, &v) })
	return v, site, err
}

func failErr(prefix, site string, err error, obs map[string]any) *c13Fail {
	obs["error"] = err.Error()
	if site != "" {
		return &c13Fail{Kind: prefix + "-panic@" + site, Obs: obs}
	}
	return &c13Fail{Kind: prefix + "-error", Obs: obs}
}

// invariants walks a cedar-go value and applies the set / record structure hooks.
func invariants(v types.Value) error {
	switch t := v.(type) {
	case types.Set:
		if err := types.VerifSetInvariant(t); err != nil {
			return err
		}
		for e := range t.All() {
			if err := invariants(e); err != nil {
				return err
			}
		}
	case types.Record:
		if err := types.VerifRecordInvariant(t); err != nil {
			return err
		}
		for _, e := range t.All() {
			if err := invariants(e); err != nil {
				return err
			}
		}
	}
	return nil
}

// ---------------------------------------------------------------- value round trip

// rtValue is the pure round-trip check of one value.
func rtValue(v model.Val) *c13Fail {
	obs := map[string]any{"value": v.String()}
	var cv types.Value
	var site string
	if err := guard(&site, func() error { cv = bridge.ToValue(v); return nil }); err != nil {
		return failErr("construct", site, err, obs)
	}
	b1, site, err := cedarMarshal(cv)
	if err != nil {
		return failErr("marshal", site, err, obs)
	}
	obs["cedar_go_encoding"] = string(b1)
	// (a) independent reading of the encoding
	g, err := parseGeneric(b1)
	if err != nil {
		obs["error"] = err.Error()
		return &c13Fail{"encoding-not-json", obs}
	}
	mv, err := readValue(g)
	if err != nil {
		obs["error"] = err.Error()
		return &c13Fail{"encoding-not-a-cedar-value", obs}
	}
	if !mv.Equal(v) {
		obs["encoding_denotes"] = mv.String()
		return &c13Fail{"encoding-denotes-other-value", obs}
	}
	// (b) cedar-go decodes its own encoding
	got, site, err := cedarDecodeValue(b1)
	if err != nil {
		return failErr("decode", site, err, obs)
	}
	gm, err := bridge.FromValue(got)
	if err != nil {
		obs["error"] = err.Error()
		return &c13Fail{"decoded-value-malformed", obs}
	}
	if !gm.Equal(v) {
		obs["decoded"] = gm.String()
		return &c13Fail{"decoded-" + gm.K.String() + "-not-equal", obs}
	}
	if !got.Equal(cv) || !cv.Equal(got) {
		return &c13Fail{"decoded-not-Equal-by-cedar-go", obs}
	}
	if types.VerifHash(got) != types.VerifHash(cv) {
		return &c13Fail{"decoded-hash-differs", obs}
	}
	if err := invariants(got); err != nil {
		obs["error"] = err.Error()
		return &c13Fail{"decoded-structure-invariant", obs}
	}
	// (c) stability
	b2, site, err := cedarMarshal(got)
	if err != nil {
		return failErr("re-marshal", site, err, obs)
	}
	if !bytes.Equal(b1, b2) {
		obs["second_encoding"] = string(b2)
		return &c13Fail{"re-encoding-differs", obs}
	}
	got2, site, err := cedarDecodeValue(b2)
	if err != nil {
		return failErr("second-decode", site, err, obs)
	}
	b3, site, err := cedarMarshal(got2)
	if err != nil {
		return failErr("third-marshal", site, err, obs)
	}
	if !bytes.Equal(b2, b3) || !got2.Equal(got) {
		obs["third_encoding"] = string(b3)
		return &c13Fail{"second-round-trip-differs", obs}
	}
	return nil
}

// altValue decodes one harness-written spelling of v.
func altValue(v model.Val, st jStyle) *c13Fail {
	text := strings.TrimSpace(writeValue(v, st)) // leading blanks in a direct call: see stream whitespace-stat
	obs := map[string]any{"value": v.String(), "spelling": text, "style": st.flags()}
	got, site, err := cedarDecodeValue([]byte(text))
	if err != nil {
		return failErr("rejected", site, err, obs)
	}
	gm, err := bridge.FromValue(got)
	if err != nil {
		obs["error"] = err.Error()
		return &c13Fail{"decoded-value-malformed", obs}
	}
	if !gm.Equal(v) {
		obs["decoded"] = gm.String()
		return &c13Fail{"decoded-" + gm.K.String() + "-not-equal", obs}
	}
	if err := invariants(got); err != nil {
		obs["error"] = err.Error()
		return &c13Fail{"decoded-structure-invariant", obs}
	}
	if cv := bridge.ToValue(v); !got.Equal(cv) || types.VerifHash(got) != types.VerifHash(cv) {
		return &c13Fail{"decoded-not-Equal-by-cedar-go", obs}
	}
	return nil
}

func sameKind(a, b *c13Fail) bool { return a != nil && b != nil && a.Kind == b.Kind }

const sigFirstDay = "value-json:datetime-first-day-of-range"

// valueSig builds the signature of a value-level failure from the minimal witness.
func valueSig(prefix string, min model.Val, f *c13Fail) string {
	cl := c13Class(min)
	if cl == "datetime-first-day-of-range" {
		return sigFirstDay
	}
	if min.K == model.KSet && probeChainWraps(min) {
		cl = "set(probe-chain-wraps-past-2^64-1)"
	}
	if strings.HasPrefix(cl, "record-lookalike(") {
		// one defect family (escape detection by magic key); the observation (error, or which
		// other value comes back) depends on the record's content and is left to the witness
		return prefix + ":" + cl
	}
	return prefix + ":" + f.Kind + ":" + cl
}

// probeChainWraps replays the open-addressing insertion of types.NewSet with the member hashes
// reported by the hook and tells whether some member ends up in a slot below its hash, i.e.
// the probe sequence wrapped from 2^64-1 to 0. Used to name the witness class only.
func probeChainWraps(v model.Val) bool {
	used := map[uint64]bool{}
	for _, e := range v.Elems {
		h0 := types.VerifHash(bridge.ToValue(e))
		h := h0
		for used[h] {
			h++
		}
		used[h] = true
		if h < h0 {
			return true
		}
	}
	return false
}

// failingPart descends to a nested value that fails on its own (any kind of failure).
func failingPart(v model.Val, fails func(model.Val) bool) model.Val {
	for {
		moved := false
		for _, c := range append(append([]model.Val{}, v.Elems...), v.Vals...) {
			if !hasEscapeLike(c, true) && fails(c) {
				v, moved = c, true
				break
			}
		}
		if !moved {
			return v
		}
	}
}

// reportValue localises a failing value to a minimal one and reports it. It returns true if
// a violation was reported.
func reportValue(w *mon.W, ctx string, v model.Val) bool {
	if rtValue(v) == nil {
		return false
	}
	v0 := v
	v = failingPart(v, func(c model.Val) bool { return rtValue(c) != nil })
	f := rtValue(v)
	// keep the look-alike classes while shrinking: they are distinct sub-defects
	min := shrinkVal(v, func(c model.Val) bool { return sameKind(rtValue(c), f) && noNewLookalikeClass(c, v) })
	mf := rtValue(min)
	if mf == nil {
		mf, min = f, v
	}
	mf.Obs["original_value"] = v0.String()
	mf.Obs["found_in"] = ctx
	w.Violation(valueSig("value-json", min, mf),
		fmt.Sprintf("JSON round trip of the Cedar value %s fails (%s)", min.String(), mf.Kind), mf.Obs)
	return true
}

func reportAlt(w *mon.W, ctx string, v model.Val, st jStyle) bool {
	f := altValue(v, st)
	if f == nil {
		return false
	}
	// if the canonical round trip of some part already fails, that is the finding
	if reportValue(w, ctx, v) {
		return true
	}
	v0 := v
	v = failingPart(v, func(c model.Val) bool { return altValue(c, st) != nil })
	f = altValue(v, st)
	min := shrinkVal(v, func(c model.Val) bool { return sameKind(altValue(c, st), f) })
	// drop style features that are not needed for the failure
	for _, off := range []func(s *jStyle){func(s *jStyle) { s.Noise = false }, func(s *jStyle) { s.Esc = 0 }, func(s *jStyle) { s.Perm = false },
		func(s *jStyle) { s.Dup = false }, func(s *jStyle) { s.AltLit = false }} {
		s2 := st
		off(&s2)
		if sameKind(altValue(min, s2), f) {
			st = s2
		}
	}
	mf := altValue(min, st)
	if mf == nil {
		mf, min = f, v
	}
	mf.Obs["original_value"] = v0.String()
	mf.Obs["found_in"] = ctx
	sig := valueSig("value-json-alt("+strings.Join(st.flags(), "+")+")", min, mf)
	w.Violation(sig, fmt.Sprintf("the spelling %s of the Cedar value %s: %s", mf.Obs["spelling"], min.String(), mf.Kind), mf.Obs)
	return true
}

// ---------------------------------------------------------------- typed decoders

type typedSpelling struct {
	name string
	text string
}

func typedSpellings(v model.Val, st jStyle) []typedSpelling {
	var out []typedSpelling
	if v.K == model.KEntity {
		for i, n := range []string{"explicit", "implicit"} {
			w := newJW(st)
			w.entityRef(v, i == 1)
			out = append(out, typedSpelling{n, w.b.String()})
		}
		return out
	}
	for i, n := range []string{"explicit", "fn-arg", "bare-string"} {
		w := newJW(st)
		w.ext(v, i)
		out = append(out, typedSpelling{n, w.b.String()})
	}
	return out
}

// typedDecode runs the typed decoder for v's kind on text, through encoding/json and directly.
func typedDecode(k model.Kind, text string, direct bool) (types.Value, string, error) {
	b := []byte(text)
	var out types.Value
	var site string
	err := guard(&site, func() error {
		switch k {
		case model.KDecimal:
			var x types.Decimal
			var e error
			if direct {
				e = x.UnmarshalJSON(bytes.TrimSpace(b))
			} else {
				e = json.Unmarshal(b, &x)
			}
			out = x
			return e
		case model.KDatetime:
			var x types.Datetime
			var e error
			if direct {
				e = x.UnmarshalJSON(bytes.TrimSpace(b))
			} else {
				e = json.Unmarshal(b, &x)
			}
			out = x
			return e
		case model.KDuration:
			var x types.Duration
			var e error
			if direct {
				e = x.UnmarshalJSON(bytes.TrimSpace(b))
			} else {
				e = json.Unmarshal(b, &x)
			}
			out = x
			return e
		case model.KIP:
			var x types.IPAddr
			var e error
			if direct {
				e = x.UnmarshalJSON(bytes.TrimSpace(b))
			} else {
				e = json.Unmarshal(b, &x)
			}
			out = x
			return e
		case model.KEntity:
			var x types.EntityUID
			var e error
			if direct {
				e = x.UnmarshalJSON(bytes.TrimSpace(b))
			} else {
				e = json.Unmarshal(b, &x)
			}
			out = x
			return e
		}
		return fmt.Errorf("no typed decoder")
	})
	return out, site, err
}

func mustModel(v types.Value) model.Val {
	m, err := bridge.FromValue(v)
	if err != nil {
		return model.Val{K: -1}
	}
	return m
}

var typedName = map[model.Kind]string{model.KDecimal: "Decimal", model.KDatetime: "Datetime", model.KDuration: "Duration", model.KIP: "IPAddr", model.KEntity: "EntityUID"}

func checkTyped(w *mon.W, v model.Val, st jStyle) {
	for _, sp := range typedSpellings(v, st) {
		for _, direct := range []bool{false, true} {
			w.Evals(1)
			w.Count("typed:" + typedName[v.K] + ".UnmarshalJSON(" + sp.name + ")")
			got, site, err := typedDecode(v.K, sp.text, direct)
			obs := map[string]any{"value": v.String(), "spelling": sp.text, "decoder": "types." + typedName[v.K] + ".UnmarshalJSON", "direct_call": direct, "style": st.flags()}
			var f *c13Fail
			if err != nil {
				f = failErr("rejected", site, err, obs)
			} else if gm, cerr := bridge.FromValue(got); cerr != nil {
				obs["error"] = cerr.Error()
				f = &c13Fail{"decoded-value-malformed", obs}
			} else if !gm.Equal(v) {
				obs["decoded"] = gm.String()
				f = &c13Fail{"decoded-not-equal", obs}
			}
			if f == nil {
				continue
			}
			if reportValue(w, "typed decoder", v) {
				return
			}
			cl := c13Class(v)
			fl := strings.Join(st.flags(), "+")
			// does the plain spelling of the same form fail the same way? then the style is irrelevant
			for _, sp2 := range typedSpellings(v, jStyle{}) {
				if sp2.name != sp.name {
					continue
				}
				if _, _, err2 := typedDecode(v.K, sp2.text, direct); (err2 != nil) == (err != nil) {
					if got2, _, _ := typedDecode(v.K, sp2.text, direct); err != nil || !mustModel(got2).Equal(v) {
						fl = "plain"
						obs["plain_spelling_fails_too"] = sp2.text
					}
				}
			}
			sig := "typed-json:" + typedName[v.K] + "(" + sp.name + "," + fl + "):" + f.Kind + ":" + cl
			if cl == "datetime-first-day-of-range" {
				sig = sigFirstDay
			}
			w.Violation(sig, fmt.Sprintf("types.%s.UnmarshalJSON on the %s spelling %s of %s: %s", typedName[v.K], sp.name, sp.text, v.String(), f.Kind), obs)
			return
		}
	}
}

// ---------------------------------------------------------------- entities

func toCedarEntity(e *model.Entity) types.Entity {
	ps := make([]types.EntityUID, len(e.Parents))
	for i, p := range e.Parents {
		ps[i] = bridge.ToUID(p)
	}
	return types.Entity{UID: bridge.ToUID(e.UID), Parents: types.NewEntityUIDSet(ps...), Attributes: bridge.ToRecord(e.Attrs), Tags: bridge.ToRecord(e.Tags)}
}

func fromCedarEntity(e types.Entity) (*model.Entity, error) {
	out := &model.Entity{UID: model.Ent(string(e.UID.Type), string(e.UID.ID))}
	n := 0
	for p := range e.Parents.All() {
		n++
		out.Parents = append(out.Parents, model.Ent(string(p.Type), string(p.ID)))
	}
	out.Parents = model.Set(out.Parents...).Elems
	if n != len(out.Parents) || n != e.Parents.Len() {
		return nil, fmt.Errorf("parent set iterates %d members, Len()=%d, %d distinct", n, e.Parents.Len(), len(out.Parents))
	}
	var err error
	if out.Attrs, err = bridge.FromValue(e.Attributes); err != nil {
		return nil, fmt.Errorf("attrs: %w", err)
	}
	if out.Tags, err = bridge.FromValue(e.Tags); err != nil {
		return nil, fmt.Errorf("tags: %w", err)
	}
	return out, nil
}

func rtEntity(e *model.Entity) *c13Fail {
	obs := map[string]any{"entity": entityString(e)}
	var ce types.Entity
	var site string
	if err := guard(&site, func() error { ce = toCedarEntity(e); return nil }); err != nil {
		return failErr("construct", site, err, obs)
	}
	b1, site, err := cedarMarshal(ce)
	if err != nil {
		return failErr("marshal", site, err, obs)
	}
	obs["cedar_go_encoding"] = string(b1)
	g, err := parseGeneric(b1)
	if err != nil {
		obs["error"] = err.Error()
		return &c13Fail{"encoding-not-json", obs}
	}
	me, err := readEntity(g)
	if err != nil {
		obs["error"] = err.Error()
		return &c13Fail{"encoding-not-an-entity", obs}
	}
	if !entityEqual(me, e) {
		obs["encoding_denotes"] = entityString(me)
		return &c13Fail{"encoding-denotes-other-entity", obs}
	}
	var got types.Entity
	if site, err := cedarUnmarshal(b1, &got); err != nil {
		return failErr("decode", site, err, obs)
	}
	if f := compareEntity(got, e, ce, obs); f != nil {
		return f
	}
	b2, site, err := cedarMarshal(got)
	if err != nil {
		return failErr("re-marshal", site, err, obs)
	}
	if !bytes.Equal(b1, b2) {
		obs["second_encoding"] = string(b2)
		return &c13Fail{"re-encoding-differs", obs}
	}
	return nil
}

func compareEntity(got types.Entity, e *model.Entity, ce types.Entity, obs map[string]any) *c13Fail {
	gm, err := fromCedarEntity(got)
	if err != nil {
		obs["error"] = err.Error()
		return &c13Fail{"decoded-entity-malformed", obs}
	}
	if !entityEqual(gm, e) {
		obs["decoded"] = entityString(gm)
		part := "attrs"
		switch {
		case !gm.UID.Equal(e.UID):
			part = "uid"
		case !model.Set(gm.Parents...).Equal(model.Set(e.Parents...)):
			part = "parents"
		case !gm.Tags.Equal(e.Tags) && gm.Attrs.Equal(e.Attrs):
			part = "tags"
		}
		return &c13Fail{"decoded-" + part + "-not-equal", obs}
	}
	if !got.Equal(ce) || !ce.Equal(got) {
		return &c13Fail{"decoded-not-Equal-by-cedar-go", obs}
	}
	if err := invariants(got.Attributes); err != nil {
		obs["error"] = err.Error()
		return &c13Fail{"decoded-structure-invariant", obs}
	}
	if err := invariants(got.Tags); err != nil {
		obs["error"] = err.Error()
		return &c13Fail{"decoded-structure-invariant", obs}
	}
	return nil
}

// entityOpts selects the spelling of an entity document written by the harness.
type entityOpts struct {
	UIDImplicit     bool
	ParentsImplicit int // 0 explicit, 1 implicit, 2 random per parent
	OmitEmptyTags   bool
}

func (o entityOpts) flags() []string {
	f := []string{"uid-explicit", "parents-explicit"}
	if o.UIDImplicit {
		f[0] = "uid-implicit"
	}
	switch o.ParentsImplicit {
	case 1:
		f[1] = "parents-implicit"
	case 2:
		f[1] = "parents-mixed"
	}
	if o.OmitEmptyTags {
		f = append(f, "tags-omitted-if-empty")
	}
	return f
}

func (w *jw) entity(e *model.Entity, o entityOpts, attrs, tags func()) {
	members := []struct {
		k string
		f func()
	}{
		{"uid", func() { w.entityRef(e.UID, o.UIDImplicit) }},
		{"parents", func() {
			w.tok("[")
			idx := w.order(len(e.Parents))
			if w.st.Dup && len(idx) > 0 {
				idx = append(idx, idx[w.r.Intn(len(idx))])
			}
			for k, i := range idx {
				if k > 0 {
					w.tok(",")
				}
				w.entityRef(e.Parents[i], o.ParentsImplicit == 1 || (o.ParentsImplicit == 2 && w.r.Bool()))
			}
			w.tok("]")
		}},
		{"attrs", attrs},
	}
	if !(o.OmitEmptyTags && len(e.Tags.Keys) == 0) {
		members = append(members, struct {
			k string
			f func()
		}{"tags", tags})
	}
	w.tok("{")
	for k, i := range w.order(len(members)) {
		if k > 0 {
			w.tok(",")
		}
		w.str(members[i].k)
		w.tok(":")
		members[i].f()
	}
	w.tok("}")
}

func writeEntity(e *model.Entity, st jStyle, o entityOpts) string {
	w := newJW(st)
	w.entity(e, o, func() { w.val(e.Attrs) }, func() { w.val(e.Tags) })
	return w.b.String()
}

func randEntityOpts(r *mon.Rand) entityOpts {
	return entityOpts{UIDImplicit: r.Bool(), ParentsImplicit: r.Intn(3), OmitEmptyTags: r.Bool()}
}

func altEntity(e *model.Entity, st jStyle, o entityOpts) *c13Fail {
	text := writeEntity(e, st, o)
	obs := map[string]any{"entity": entityString(e), "spelling": text, "style": append(st.flags(), o.flags()...)}
	var got types.Entity
	if site, err := cedarUnmarshal([]byte(text), &got); err != nil {
		return failErr("rejected", site, err, obs)
	}
	return compareEntity(got, e, toCedarEntity(e), obs)
}

// entityValues lists the values of an entity that can be checked on their own: the attribute
// and tag values, and the attrs / tags records themselves (unless escape-like as a value).
func entityValues(e *model.Entity) []model.Val {
	out := append(append([]model.Val{}, e.Attrs.Vals...), e.Tags.Vals...)
	for _, r := range []model.Val{e.Attrs, e.Tags} {
		if !isEscapeLike(r) {
			out = append(out, r)
		}
	}
	return out
}

// shrinkEntity removes parents, attributes and tags while fails holds.
func shrinkEntity(e *model.Entity, fails func(*model.Entity) bool) *model.Entity {
	cur := *e
	for budget := 200; budget > 0; {
		moved := false
		var cands []*model.Entity
		if plain := model.Ent("U", "a"); !cur.UID.Equal(plain) {
			c := cur
			c.UID = plain
			cands = append(cands, &c)
		}
		for i, p := range cur.Parents {
			if plain := model.Ent("G", "a"); !p.Equal(plain) && !model.Set(cur.Parents...).Contains(plain) {
				c := cur
				c.Parents = append([]model.Val{}, cur.Parents...)
				c.Parents[i] = plain
				c.Parents = model.Set(c.Parents...).Elems
				cands = append(cands, &c)
			}
		}
		for i := range cur.Parents {
			c := cur
			c.Parents = append(append([]model.Val{}, cur.Parents[:i]...), cur.Parents[i+1:]...)
			cands = append(cands, &c)
		}
		for i := range cur.Attrs.Keys {
			c := cur
			c.Attrs = withoutIdx(cur.Attrs, i)
			cands = append(cands, &c)
		}
		for i := range cur.Tags.Keys {
			c := cur
			c.Tags = withoutIdx(cur.Tags, i)
			cands = append(cands, &c)
		}
		for _, c := range cands {
			budget--
			if fails(c) {
				cur = *c
				moved = true
				break
			}
		}
		if !moved {
			break
		}
	}
	return &cur
}

func entityClass(e *model.Entity) string {
	return fmt.Sprintf("entity(uid:%s,parents:%d,attrs:%d,tags:%d)", stringClass(e.UID.ID), min(len(e.Parents), 2), min(len(e.Attrs.Keys), 2), min(len(e.Tags.Keys), 2))
}

// reportEntity localises an entity-level failure (first to a value, then to a minimal entity).
func reportEntity(w *mon.W, ctx string, e *model.Entity, check func(*model.Entity) *c13Fail, prefix string) bool {
	f := check(e)
	if f == nil {
		return false
	}
	for _, x := range entityValues(e) {
		if hasEscapeLike(x, true) {
			continue
		}
		if reportValue(w, ctx+" (attribute or tag value)", x) {
			return true
		}
	}
	min := shrinkEntity(e, func(c *model.Entity) bool { return sameKind(check(c), f) })
	mf := check(min)
	if mf == nil {
		mf, min = f, e
	}
	mf.Obs["original_entity"] = entityString(e)
	mf.Obs["found_in"] = ctx
	w.Violation(prefix+":"+mf.Kind+":"+entityClass(min), fmt.Sprintf("JSON round trip of the entity %s fails (%s)", entityString(min), mf.Kind), mf.Obs)
	return true
}

// ---------------------------------------------------------------- entity maps

func randEntityMap(r *mon.Rand) map[string]*model.Entity {
	m := map[string]*model.Entity{}
	for n := r.Intn(7); n > 0; n-- {
		e := c13Entity(r)
		m[e.UID.Key()] = e
	}
	return m
}

func mapString(m map[string]*model.Entity) []string {
	var out []string
	for _, e := range sortedEntities(m) {
		out = append(out, entityString(e))
	}
	return out
}

func compareMap(got types.EntityMap, m map[string]*model.Entity, obs map[string]any) *c13Fail {
	if len(got) != len(m) {
		obs["decoded_len"] = len(got)
		return &c13Fail{"decoded-map-size-differs", obs}
	}
	for _, e := range sortedEntities(m) {
		ge, ok := got[bridge.ToUID(e.UID)]
		if !ok {
			obs["missing"] = e.UID.String()
			return &c13Fail{"decoded-map-entity-missing", obs}
		}
		if f := compareEntity(ge, e, toCedarEntity(e), obs); f != nil {
			obs["entity"] = entityString(e)
			return f
		}
	}
	return nil
}

func rtMap(m map[string]*model.Entity) *c13Fail {
	obs := map[string]any{"entities": mapString(m)}
	cm := types.EntityMap{}
	for _, e := range sortedEntities(m) {
		cm[bridge.ToUID(e.UID)] = toCedarEntity(e)
	}
	b1, site, err := cedarMarshal(cm)
	if err != nil {
		return failErr("marshal", site, err, obs)
	}
	obs["cedar_go_encoding"] = string(b1)
	g, err := parseGeneric(b1)
	arr, ok := g.([]any)
	if g == nil && err == nil && len(m) == 0 {
		ok = true // cedar-go writes the empty map as `null` (and reads it back as empty): counted, not demanded otherwise
	}
	if err != nil || !ok || len(arr) != len(m) {
		return &c13Fail{"encoding-not-an-entity-array", obs}
	}
	seen := map[string]bool{}
	for _, x := range arr {
		me, err := readEntity(x)
		if err != nil {
			obs["error"] = err.Error()
			return &c13Fail{"encoding-not-an-entity", obs}
		}
		want, ok := m[me.UID.Key()]
		if !ok || seen[me.UID.Key()] || !entityEqual(me, want) {
			obs["encoding_denotes"] = entityString(me)
			return &c13Fail{"encoding-denotes-other-entity", obs}
		}
		seen[me.UID.Key()] = true
	}
	var got types.EntityMap
	if site, err := cedarUnmarshal(b1, &got); err != nil {
		return failErr("decode", site, err, obs)
	}
	if f := compareMap(got, m, obs); f != nil {
		return f
	}
	b2, site, err := cedarMarshal(got)
	if err != nil {
		return failErr("re-marshal", site, err, obs)
	}
	if !bytes.Equal(b1, b2) {
		obs["second_encoding"] = string(b2)
		return &c13Fail{"re-encoding-differs", obs}
	}
	return nil
}

func writeMap(m map[string]*model.Entity, st jStyle, o entityOpts) string {
	w := newJW(st)
	es := sortedEntities(m)
	w.tok("[")
	for k, i := range w.order(len(es)) {
		if k > 0 {
			w.tok(",")
		}
		e := es[i]
		w.entity(e, o, func() { w.val(e.Attrs) }, func() { w.val(e.Tags) })
	}
	w.tok("]")
	return w.b.String()
}

func altMap(m map[string]*model.Entity, st jStyle, o entityOpts) *c13Fail {
	text := writeMap(m, st, o)
	obs := map[string]any{"entities": mapString(m), "spelling": text, "style": append(st.flags(), o.flags()...)}
	var got types.EntityMap
	if site, err := cedarUnmarshal([]byte(text), &got); err != nil {
		return failErr("rejected", site, err, obs)
	}
	return compareMap(got, m, obs)
}

// ---------------------------------------------------------------- requests, diagnostics

type c13Request struct{ P, A, R, Ctx model.Val }

func (q c13Request) String() string {
	return fmt.Sprintf("principal=%s action=%s resource=%s context=%s", q.P, q.A, q.R, q.Ctx)
}

func compareRequest(got types.Request, q c13Request, obs map[string]any) *c13Fail {
	ctx, err := bridge.FromValue(got.Context)
	if err != nil {
		obs["error"] = err.Error()
		return &c13Fail{"decoded-context-malformed", obs}
	}
	gq := c13Request{model.Ent(string(got.Principal.Type), string(got.Principal.ID)), model.Ent(string(got.Action.Type), string(got.Action.ID)),
		model.Ent(string(got.Resource.Type), string(got.Resource.ID)), ctx}
	if !gq.P.Equal(q.P) || !gq.A.Equal(q.A) || !gq.R.Equal(q.R) {
		obs["decoded"] = gq.String()
		return &c13Fail{"decoded-uid-not-equal", obs}
	}
	if !gq.Ctx.Equal(q.Ctx) {
		obs["decoded"] = gq.String()
		return &c13Fail{"decoded-context-not-equal", obs}
	}
	cq := types.Request{Principal: bridge.ToUID(q.P), Action: bridge.ToUID(q.A), Resource: bridge.ToUID(q.R), Context: bridge.ToRecord(q.Ctx)}
	if !got.Equal(cq) || !cq.Equal(got) {
		return &c13Fail{"decoded-not-Equal-by-cedar-go", obs}
	}
	return nil
}

func rtRequest(q c13Request) *c13Fail {
	obs := map[string]any{"request": q.String()}
	cq := types.Request{Principal: bridge.ToUID(q.P), Action: bridge.ToUID(q.A), Resource: bridge.ToUID(q.R), Context: bridge.ToRecord(q.Ctx)}
	b1, site, err := cedarMarshal(cq)
	if err != nil {
		return failErr("marshal", site, err, obs)
	}
	obs["cedar_go_encoding"] = string(b1)
	g, err := parseGeneric(b1)
	mm, ok := g.(map[string]any)
	if err != nil || !ok || len(mm) != 4 {
		return &c13Fail{"encoding-not-a-request-object", obs}
	}
	for _, kv := range []struct {
		k string
		v model.Val
	}{{"principal", q.P}, {"action", q.A}, {"resource", q.R}} {
		u, err := readUID(mm[kv.k])
		if err != nil || !u.Equal(kv.v) {
			return &c13Fail{"encoding-denotes-other-" + kv.k, obs}
		}
	}
	if c, err := readRecord(mm["context"]); err != nil || !c.Equal(q.Ctx) {
		return &c13Fail{"encoding-denotes-other-context", obs}
	}
	var got types.Request
	if site, err := cedarUnmarshal(b1, &got); err != nil {
		return failErr("decode", site, err, obs)
	}
	if f := compareRequest(got, q, obs); f != nil {
		return f
	}
	b2, site, err := cedarMarshal(got)
	if err != nil {
		return failErr("re-marshal", site, err, obs)
	}
	if !bytes.Equal(b1, b2) {
		obs["second_encoding"] = string(b2)
		return &c13Fail{"re-encoding-differs", obs}
	}
	return nil
}

func altRequest(q c13Request, st jStyle, implicit int) *c13Fail {
	w := newJW(st)
	members := []struct {
		k string
		f func()
	}{
		{"principal", func() { w.entityRef(q.P, implicit == 1 || (implicit == 2 && w.r.Bool())) }},
		{"action", func() { w.entityRef(q.A, implicit == 1 || (implicit == 2 && w.r.Bool())) }},
		{"resource", func() { w.entityRef(q.R, implicit == 1 || (implicit == 2 && w.r.Bool())) }},
		{"context", func() { w.val(q.Ctx) }},
	}
	w.tok("{")
	for k, i := range w.order(len(members)) {
		if k > 0 {
			w.tok(",")
		}
		w.str(members[i].k)
		w.tok(":")
		members[i].f()
	}
	w.tok("}")
	text := w.b.String()
	obs := map[string]any{"request": q.String(), "spelling": text, "style": append(st.flags(), fmt.Sprintf("uids-implicit-mode-%d", implicit))}
	var got types.Request
	if site, err := cedarUnmarshal([]byte(text), &got); err != nil {
		return failErr("rejected", site, err, obs)
	}
	return compareRequest(got, q, obs)
}

func randPosition(r *mon.Rand) types.Position {
	ints := []int{0, 1, -1, 2, 80, 1 << 20, 1<<31 - 1, 1 << 31, 1<<53 + 1, 1<<63 - 1, -1 << 63}
	pick := func() int {
		if r.Bool() {
			return r.Intn(200)
		}
		return mon.Pick(r, ints)
	}
	return types.Position{Filename: c13String(r), Offset: pick(), Line: pick(), Column: pick()}
}

func randDiagnostic(r *mon.Rand) types.Diagnostic {
	var d types.Diagnostic
	switch r.Intn(4) {
	case 0: // nil
	case 1:
		d.Reasons = []types.DiagnosticReason{}
	default:
		for n := r.Intn(4); n > 0; n-- {
			d.Reasons = append(d.Reasons, types.DiagnosticReason{PolicyID: types.PolicyID(c13String(r)), Position: randPosition(r)})
		}
	}
	switch r.Intn(4) {
	case 0:
	case 1:
		d.Errors = []types.DiagnosticError{}
	default:
		for n := r.Intn(4); n > 0; n-- {
			d.Errors = append(d.Errors, types.DiagnosticError{PolicyID: types.PolicyID(c13String(r)), Position: randPosition(r), Message: c13String(r)})
		}
	}
	return d
}

func diagEqual(a, b types.Diagnostic) bool {
	if len(a.Reasons) != len(b.Reasons) || len(a.Errors) != len(b.Errors) {
		return false
	}
	for i := range a.Reasons {
		if a.Reasons[i] != b.Reasons[i] {
			return false
		}
	}
	for i := range a.Errors {
		if a.Errors[i] != b.Errors[i] {
			return false
		}
	}
	return true
}

// c13Response mirrors how applications serialise an authorization answer.
type c13Response struct {
	Decision   types.Decision   `json:"decision"`
	Diagnostic types.Diagnostic `json:"diagnostic"`
}

// independent reading of a diagnostic encoding
func readDiagnostic(x any) (types.Diagnostic, error) {
	var d types.Diagnostic
	m, ok := x.(map[string]any)
	if !ok {
		return d, fmt.Errorf("not an object")
	}
	num := func(x any) (int, error) {
		n, ok := x.(json.Number)
		if !ok {
			return 0, fmt.Errorf("not a number")
		}
		i, err := n.Int64()
		return int(i), err
	}
	pos := func(x any) (types.Position, error) {
		var p types.Position
		pm, ok := x.(map[string]any)
		if !ok || len(pm) != 4 {
			return p, fmt.Errorf("position must have 4 members")
		}
		var e1, e2, e3 error
		p.Filename, ok = pm["filename"].(string)
		p.Offset, e1 = num(pm["offset"])
		p.Line, e2 = num(pm["line"])
		p.Column, e3 = num(pm["column"])
		if !ok || e1 != nil || e2 != nil || e3 != nil {
			return p, fmt.Errorf("bad position")
		}
		return p, nil
	}
	for k, x := range m {
		arr, ok := x.([]any)
		if !ok {
			return d, fmt.Errorf("%s is not an array", k)
		}
		for _, it := range arr {
			im, ok := it.(map[string]any)
			if !ok {
				return d, fmt.Errorf("item is not an object")
			}
			id, ok1 := im["policy"].(string)
			p, err := pos(im["position"])
			if !ok1 || err != nil {
				return d, fmt.Errorf("bad item")
			}
			switch k {
			case "reasons":
				if len(im) != 2 {
					return d, fmt.Errorf("reason must have 2 members")
				}
				d.Reasons = append(d.Reasons, types.DiagnosticReason{PolicyID: types.PolicyID(id), Position: p})
			case "errors":
				msg, ok := im["message"].(string)
				if !ok || len(im) != 3 {
					return d, fmt.Errorf("error must have 3 members")
				}
				d.Errors = append(d.Errors, types.DiagnosticError{PolicyID: types.PolicyID(id), Position: p, Message: msg})
			default:
				return d, fmt.Errorf("unknown member %q", k)
			}
		}
	}
	return d, nil
}

// ---------------------------------------------------------------- the monitor

func valueNonTrivial(v model.Val) bool {
	switch v.K {
	case model.KBool:
		return false
	case model.KLong:
		return v.I > 1<<31 || v.I < -(1<<31)
	case model.KString:
		return stringClass(v.S) != "ascii" && stringClass(v.S) != "empty"
	}
	return true
}

func C13(c *mon.Ctx) {
	c.Rule = "case = one model object (value nested <=3 incl. records that merely look like __entity/__extn escapes, typed scalar, entity, entity map, schema+conforming entity map, request, diagnostic) generated from (seed, stream, index). " +
		"cedar-go's encoding is read by the harness's own reader and must denote the object; cedar-go's decoder must return it (model equality through public accessors, cedar-go Equal both ways, equal hash, set/record structure hooks), " +
		"re-encoding must be byte-identical over two trips; 3 harness-written alternative spellings per object (member/element permutations, repeated elements, other string escapes, whitespace, other literal spellings, implicit forms where the typed or schema-guided decoder allows them) must decode to an equal object. " +
		"distinct_nontrivial = distinct rendered objects that are not a bare bool / 32-bit long / plain ASCII string."
	c.Assume = []string{
		"strings, keys, entity ids are valid UTF-8 (Cedar strings are Unicode; encoding/json replaces invalid bytes by U+FFFD by design)",
		"a record that the Cedar JSON value format itself reads as an escape - a member \"__entity\" bound to an object with string members type and id, or \"__extn\" bound to an object with string members fn and arg, further members at either level being ignored by the format (cedar-go's tests explicitEntityExtraField and 'extra keys in inner' pin that; the reference implementation refuses to serialise such records) - is inherently ambiguous and excluded wherever it would be decoded as a value; every other record with __entity/__extn/type/id/fn/arg keys (magic key bound to a scalar, a set, an incomplete object, an escaped value, or spelled in another letter case) is included and must survive",
		"entity types are Cedar paths from a fixed list; alternative datetime literal spellings are restricted to the RFC 80 forms with 4-digit years (expanded-year spelling variants are not pinned down)",
		"rejection (an error) of a harness-written spelling counts as a violation only for spellings the format defines (explicit escapes, implicit uid/parents, omitted empty tags, typed-decoder forms, schema-guided bare strings and {type,id}); `{fn,arg}` under a schema and leading whitespace in direct types.UnmarshalJSON calls are only counted",
		"schema stream: datetimes below -292275055-05-17T16:47:04.192Z and IPv4-mapped IPv6 addresses are not generated there (both are reported by the value stream under their own signatures)",
		"Diagnostic equality is element-wise; a nil and an empty Reasons/Errors slice are the same diagnostic",
	}
	c.Floor = 3000

	depth := 3
	// ---- stream "values"
	c.ParFor("values", c.N(20000, 400000), func(w *mon.W, i int) {
		r := w.Rand()
		v := c13Val(r, 1+r.Intn(depth))
		w.Evals(1)
		w.Count("value:" + feature(v))
		if la := lookalikeClass(v); la != "" {
			w.Count("value:lookalike:" + la)
		}
		if valueNonTrivial(v) {
			w.NonTrivial("v|" + v.Key())
		}
		if reportValue(w, "values stream", v) {
			w.Count("value:outcome:violation")
			return
		}
		w.Count("value:outcome:round-trip-ok")
		rs := w.RandSub("style")
		for k := 0; k < 3; k++ {
			st := randStyle(rs)
			w.Evals(1)
			for _, f := range st.flags() {
				w.Count("value-alt:style:" + f)
			}
			if reportAlt(w, "values stream", v, st) {
				return
			}
		}
		if i%1499 == 0 {
			b, _ := json.Marshal(bridge.ToValue(v))
			w.Sample("value", map[string]any{"value": v.String(), "cedar_go_json": string(b), "alt_spelling": writeValue(v, randStyle(rs))})
		}
	})

	// ---- stream "boundary": every boundary scalar of the universe, alone and wrapped
	var bound []model.Val
	for _, x := range gen.Longs {
		bound = append(bound, model.Long(x))
	}
	for _, x := range gen.Decimals {
		bound = append(bound, model.Decimal(x))
	}
	for _, x := range gen.Datetimes {
		bound = append(bound, model.Datetime(x))
	}
	bound = append(bound, model.Datetime(dtLowBound), model.Datetime(dtLowBound-1), model.Datetime(year0Start), model.Datetime(year9999End))
	for _, x := range gen.Durations {
		bound = append(bound, model.Duration(x))
	}
	bound = append(bound, gen.IPs...)
	for p := 0; p <= 32; p++ {
		bound = append(bound, model.IP4(0xC0A80101, p))
	}
	for p := 0; p <= 128; p++ {
		bound = append(bound, model.IP(model.IPVal{V6: true, Hi: 0x20010db800000000, Lo: 1, Prefix: p}))
	}
	for _, s := range append(append([]string{}, gen.Strings...), c13TrickyStrings...) {
		bound = append(bound, model.Str(s), model.Ent("U", s), model.Rec(s, model.Str(s)))
	}
	for cp := rune(0); cp < 0x300; cp++ { // every code point JSON must or may escape, plus Latin / combining range
		bound = append(bound, model.Str(string(cp)))
	}
	for _, cp := range []rune{0x2028, 0x2029, 0xD7FF, 0xE000, 0xFFFD, 0xFFFE, 0xFFFF, 0x10000, 0x1F600, 0x10FFFF} {
		bound = append(bound, model.Str(string(cp)), model.Rec(string(cp), model.Long(1)))
	}
	bound = append(bound, gen.Collide()...)
	c.Extra["boundary_cases"] = len(bound)
	c.ParFor("boundary", len(bound), func(w *mon.W, i int) {
		v := bound[i]
		rs := w.RandSub("style")
		for _, x := range []model.Val{v, model.Set(v), model.Rec("k", v), model.Set(model.Rec("a", model.Set(v, model.Long(1))))} {
			w.Evals(1)
			w.Count("boundary:" + feature(v))
			w.NonTrivial("v|" + x.Key())
			if reportValue(w, "boundary stream", x) {
				return
			}
			for k := 0; k < 2; k++ {
				w.Evals(1)
				if reportAlt(w, "boundary stream", x, randStyle(rs)) {
					return
				}
			}
		}
		if v.K != model.KLong && v.K != model.KString && v.K != model.KBool && v.K != model.KSet && v.K != model.KRecord {
			checkTyped(w, v, jStyle{})
			checkTyped(w, v, randStyle(rs))
		}
	})

	// ---- stream "collisions": sets / records over members whose cedar-go hashes collide (all hash to 1,
	// or to 2^64-1 where the probe sequence wraps), every pair and every triple of a fixed family
	fam := append(gen.Collide(), model.Long(-1), model.Decimal(-1), model.Duration(-1), model.Datetime(-1), model.Long(-2), model.Decimal(-2),
		model.Set(model.Long(-1)), model.Set(model.Long(-1), model.Long(0)))
	var colCases []model.Val
	for a := range fam {
		for b := a + 1; b < len(fam); b++ {
			colCases = append(colCases, model.Set(fam[a], fam[b]))
			for d := b + 1; d < len(fam); d++ {
				if d%3 == (a+b)%3 { // a third of the triples keeps the stream small
					colCases = append(colCases, model.Set(fam[a], fam[b], fam[d]))
				}
			}
		}
	}
	c.Extra["collision_cases"] = len(colCases)
	c.ParFor("collisions", len(colCases), func(w *mon.W, i int) {
		v := colCases[i]
		w.Evals(1)
		w.Count(fmt.Sprintf("collision-set:len=%d", len(v.Elems)))
		w.NonTrivial("v|" + v.Key())
		if reportValue(w, "collisions stream", v) {
			return
		}
		w.Evals(1)
		reportAlt(w, "collisions stream", v, randStyle(w.Rand()))
	})

	// ---- stream "typed": typed decoders over random scalars
	c.ParFor("typed", c.N(6000, 100000), func(w *mon.W, i int) {
		r := w.Rand()
		k := mon.Pick(r, []model.Kind{model.KDecimal, model.KDatetime, model.KDuration, model.KIP, model.KEntity})
		var v model.Val
		if k == model.KEntity {
			v = c13UID(r)
		} else {
			v = gen.RandScalarOf(r, k)
		}
		w.NonTrivial("t|" + v.Key())
		checkTyped(w, v, randStyle(r))
		if i%1999 == 0 {
			sp := typedSpellings(v, randStyle(r))
			w.Sample("typed", map[string]any{"value": v.String(), "spellings": []string{sp[0].text, sp[len(sp)-1].text}})
		}
	})

	// ---- stream "uidsets": EntityUIDSet (mapset) codec
	c.ParFor("uidsets", c.N(3000, 40000), func(w *mon.W, i int) {
		r := w.Rand()
		var us []model.Val
		for n := r.Intn(6); n > 0; n-- {
			us = append(us, c13UID(r))
		}
		us = model.Set(us...).Elems
		cu := make([]types.EntityUID, len(us))
		for k, u := range us {
			cu[k] = bridge.ToUID(u)
		}
		set := types.NewEntityUIDSet(cu...)
		if len(us) == 0 && r.Bool() {
			set = types.EntityUIDSet{}
		}
		w.Evals(1)
		w.Count(fmt.Sprintf("uidset:len=%d", len(us)))
		w.NonTrivial("us|" + model.Set(us...).Key())
		obs := map[string]any{"uids": model.Set(us...).String()}
		fail := func(kind string) {
			w.Violation(fmt.Sprintf("uidset-json:%s:len=%d", kind, min(len(us), 2)), "JSON round trip of the EntityUIDSet "+model.Set(us...).String()+" fails: "+kind, obs)
		}
		b1, site, err := cedarMarshal(set)
		if err != nil {
			fail(failErr("marshal", site, err, obs).Kind)
			return
		}
		obs["cedar_go_encoding"] = string(b1)
		g, err := parseGeneric(b1)
		arr, ok := g.([]any)
		if err != nil || !ok || len(arr) != len(us) {
			fail("encoding-not-an-array-of-the-members")
			return
		}
		var back []model.Val
		for _, x := range arr {
			u, err := readUID(x)
			if err != nil {
				fail("encoding-member-not-a-uid")
				return
			}
			back = append(back, u)
		}
		if !model.Set(back...).Equal(model.Set(us...)) {
			fail("encoding-denotes-other-set")
			return
		}
		st := randStyle(r)
		jwr := newJW(st)
		jwr.tok("[")
		idx := jwr.order(len(us))
		if st.Dup && len(idx) > 0 {
			idx = append(idx, idx[0])
		}
		for k, j := range idx {
			if k > 0 {
				jwr.tok(",")
			}
			jwr.entityRef(us[j], jwr.r.Bool())
		}
		jwr.tok("]")
		for _, text := range []string{string(b1), jwr.b.String()} {
			var got types.EntityUIDSet
			obs["decoded_text"] = text
			if site, err := cedarUnmarshal([]byte(text), &got); err != nil {
				fail(failErr("decode", site, err, obs).Kind)
				return
			}
			if got.Len() != len(us) || !got.Equal(set) || !set.Equal(got) {
				fail("decoded-not-equal")
				return
			}
			for _, u := range cu {
				if !got.Contains(u) {
					fail("decoded-member-missing")
					return
				}
			}
			b2, _, err := cedarMarshal(got)
			if err != nil || !bytes.Equal(b1, b2) {
				obs["second_encoding"] = string(b2)
				fail("re-encoding-differs")
				return
			}
		}
	})

	// ---- stream "entities"
	c.ParFor("entities", c.N(6000, 100000), func(w *mon.W, i int) {
		r := w.Rand()
		e := c13Entity(r)
		w.Evals(1)
		w.Count(fmt.Sprintf("entity:parents=%d", min(len(e.Parents), 4)))
		w.Count(fmt.Sprintf("entity:attrs=%d,tags=%d", min(len(e.Attrs.Keys), 3), min(len(e.Tags.Keys), 3)))
		w.NonTrivial("e|" + entityString(e))
		if reportEntity(w, "entities stream", e, rtEntity, "entity-json") {
			return
		}
		rs := w.RandSub("style")
		for k := 0; k < 3; k++ {
			st, o := randStyle(rs), randEntityOpts(rs)
			w.Evals(1)
			for _, f := range o.flags() {
				w.Count("entity-alt:" + f)
			}
			chk := func(x *model.Entity) *c13Fail { return altEntity(x, st, o) }
			if chk(e) != nil {
				// alternative spellings of the attribute values alone?
				for _, x := range entityValues(e) {
					if hasEscapeLike(x, true) {
						continue
					}
					if reportAlt(w, "entities stream (attribute or tag value)", x, st) {
						return
					}
				}
				reportEntity(w, "entities stream", e, chk, "entity-json-alt("+strings.Join(append(st.flags(), o.flags()...), "+")+")")
				return
			}
		}
		if i%1999 == 0 {
			b, _ := json.Marshal(toCedarEntity(e))
			w.Sample("entity", map[string]any{"entity": entityString(e), "cedar_go_json": string(b), "alt_spelling": writeEntity(e, randStyle(rs), randEntityOpts(rs))})
		}
	})

	// ---- stream "maps"
	c.ParFor("maps", c.N(4000, 50000), func(w *mon.W, i int) {
		r := w.Rand()
		m := randEntityMap(r)
		w.Evals(1)
		w.Count(fmt.Sprintf("map:entities=%d", len(m)))
		if len(m) == 0 {
			if b, _, _ := cedarMarshal(types.EntityMap{}); string(b) == "null" {
				w.Count("stat:empty-entity-map-encodes-as-null")
			}
		}
		if len(m) > 0 {
			w.NonTrivial("m|" + strings.Join(mapString(m), ";"))
		}
		report := func(f *c13Fail, prefix string, each func(*model.Entity) *c13Fail) {
			for _, e := range sortedEntities(m) {
				if reportEntity(w, "maps stream", e, rtEntity, "entity-json") {
					return
				}
				if each != nil && reportEntity(w, "maps stream", e, each, prefix+":entity") {
					return
				}
			}
			w.Violation(fmt.Sprintf("%s:%s:entities=%d", prefix, f.Kind, min(len(m), 3)), "JSON round trip of an entity map fails: "+f.Kind, f.Obs)
		}
		if f := rtMap(m); f != nil {
			report(f, "entitymap-json", nil)
			return
		}
		rs := w.RandSub("style")
		for k := 0; k < 2; k++ {
			st, o := randStyle(rs), randEntityOpts(rs)
			w.Evals(1)
			if f := altMap(m, st, o); f != nil {
				report(f, "entitymap-json-alt("+strings.Join(append(st.flags(), o.flags()...), "+")+")", func(x *model.Entity) *c13Fail { return altEntity(x, st, o) })
				return
			}
		}
		if i%1999 == 0 && len(m) > 0 {
			w.Sample("entity-map", map[string]any{"entities": mapString(m), "alt_spelling": writeMap(m, randStyle(rs), randEntityOpts(rs))})
		}
	})

	// ---- stream "schema": schema-guided decoding of implicit forms
	c13SchemaStream(c)

	// ---- stream "requests"
	c.ParFor("requests", c.N(4000, 50000), func(w *mon.W, i int) {
		r := w.Rand()
		q := c13Request{c13UID(r), c13UID(r), c13UID(r), c13Record(r, 3)}
		w.Evals(1)
		w.Count(fmt.Sprintf("request:context-keys=%d", min(len(q.Ctx.Keys), 3)))
		w.NonTrivial("q|" + q.String())
		report := func(f *c13Fail, prefix string) {
			for _, x := range q.Ctx.Vals {
				if reportValue(w, "requests stream (context value)", x) {
					return
				}
			}
			w.Violation(prefix+":"+f.Kind, "JSON round trip of the request "+q.String()+" fails: "+f.Kind, f.Obs)
		}
		if f := rtRequest(q); f != nil {
			report(f, "request-json")
			return
		}
		rs := w.RandSub("style")
		for k := 0; k < 2; k++ {
			st, impl := randStyle(rs), rs.Intn(3)
			w.Evals(1)
			if f := altRequest(q, st, impl); f != nil {
				for _, x := range q.Ctx.Vals {
					if reportAlt(w, "requests stream (context value)", x, st) {
						return
					}
				}
				report(f, "request-json-alt("+strings.Join(st.flags(), "+")+")")
				return
			}
		}
		if i%1999 == 0 {
			b, _ := json.Marshal(types.Request{Principal: bridge.ToUID(q.P), Action: bridge.ToUID(q.A), Resource: bridge.ToUID(q.R), Context: bridge.ToRecord(q.Ctx)})
			w.Sample("request", map[string]any{"request": q.String(), "cedar_go_json": string(b)})
		}
	})

	// ---- stream "diagnostics"
	c.ParFor("diagnostics", c.N(4000, 50000), func(w *mon.W, i int) {
		r := w.Rand()
		d := randDiagnostic(r)
		resp := c13Response{Decision: types.Decision(r.Bool()), Diagnostic: d}
		w.Evals(1)
		w.Count(fmt.Sprintf("diagnostic:reasons=%d,errors=%d", len(d.Reasons), len(d.Errors)))
		obs := map[string]any{"diagnostic": fmt.Sprintf("%+v", d), "decision": resp.Decision.String()}
		fail := func(kind string) {
			w.Violation("diagnostic-json:"+kind, "JSON round trip of a Diagnostic fails: "+kind, obs)
		}
		b1, site, err := cedarMarshal(d)
		if err != nil {
			fail(failErr("marshal", site, err, obs).Kind)
			return
		}
		obs["cedar_go_encoding"] = string(b1)
		w.NonTrivial("d|" + string(b1))
		g, err := parseGeneric(b1)
		if err != nil {
			fail("encoding-not-json")
			return
		}
		if md, err := readDiagnostic(g); err != nil || !diagEqual(md, d) {
			obs["error"] = fmt.Sprint(err)
			fail("encoding-denotes-other-diagnostic")
			return
		}
		var got types.Diagnostic
		if site, err := cedarUnmarshal(b1, &got); err != nil {
			fail(failErr("decode", site, err, obs).Kind)
			return
		}
		if !diagEqual(got, d) {
			obs["decoded"] = fmt.Sprintf("%+v", got)
			fail("decoded-not-equal")
			return
		}
		if b2, _, err := cedarMarshal(got); err != nil || !bytes.Equal(b1, b2) {
			obs["second_encoding"] = string(b2)
			fail("re-encoding-differs")
			return
		}
		// decision + diagnostic inside an application-level response
		rb, site, err := cedarMarshal(resp)
		if err != nil {
			fail(failErr("response-marshal", site, err, obs).Kind)
			return
		}
		obs["response_encoding"] = string(rb)
		wantDec := `"decision":"deny"`
		if resp.Decision == types.Allow {
			wantDec = `"decision":"allow"`
		}
		if !strings.Contains(string(rb), wantDec) {
			fail("decision-encoding-wrong")
			return
		}
		var gr c13Response
		if site, err := cedarUnmarshal(rb, &gr); err != nil {
			fail(failErr("response-decode", site, err, obs).Kind)
			return
		}
		if gr.Decision != resp.Decision || !diagEqual(gr.Diagnostic, d) {
			obs["decoded"] = fmt.Sprintf("%+v", gr)
			fail("response-decoded-not-equal")
			return
		}
		if rb2, _, err := cedarMarshal(gr); err != nil || !bytes.Equal(rb, rb2) {
			fail("response-re-encoding-differs")
			return
		}
		if i%1999 == 0 {
			w.Sample("diagnostic", map[string]any{"cedar_go_json": string(rb)})
		}
	})

	// ---- stream "whitespace": statistics only (direct types.UnmarshalJSON with leading blanks)
	c.ParFor("whitespace-stat", c.N(500, 5000), func(w *mon.W, i int) {
		r := w.Rand()
		v := c13Val(r, 2)
		if rtValue(v) != nil {
			return
		}
		text := " " + writeValue(v, jStyle{})
		got, _, err := cedarDecodeValue([]byte(text))
		w.Evals(1)
		if err != nil {
			w.Count("stat:leading-whitespace:" + v.K.String() + ":rejected")
			return
		}
		gm, cerr := bridge.FromValue(got)
		if cerr != nil || !gm.Equal(v) {
			w.Violation("value-json-alt(leading-whitespace):decoded-not-equal:"+c13Class(v), "types.UnmarshalJSON accepts "+text+" but decodes another value than "+v.String(),
				map[string]any{"spelling": text, "value": v.String(), "decoded": fmt.Sprint(got)})
			return
		}
		w.Count("stat:leading-whitespace:" + v.K.String() + ":accepted-equal")
	})
}
