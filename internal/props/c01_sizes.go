package props

import (
	"fmt"
	"strings"

	cedar "github.com/cedar-policy/cedar-go"

	"verif/internal/bridge"
	"verif/internal/model"
	"verif/internal/mon"
	"verif/internal/render"
)

// C01 stream "sizes": the same operators as the tables, on operands whose SIZE walks a ladder
// around the powers of two (sets, records, strings, parent lists, ancestor chains, entity
// attribute / tag maps, operator chains of 0..4097 members). Wrong results that only show
// beyond a threshold (a fast path for "large" operands, a table that is resized, a scratch
// buffer of fixed capacity, a linear scan replaced by a search over unsorted data) are invisible
// to boundary tables over small operands. The oracle is the reference evaluator, unchanged.
// Boolean-valued cases are also decided through the compiled path (cedar.Authorize over a policy
// whose when-clause is the expression): allow iff the reference value is `true`.

var c01Ladder = []int{0, 1, 2, 3, 7, 8, 9, 15, 16, 17, 31, 32, 33, 63, 64, 65, 100, 127, 128, 129, 255, 256, 257, 511, 512, 513, 1000, 1023, 1024, 1025, 2049, 4096, 4097}

type c01SizeCase struct {
	name string
	e    *model.Expr
	env  *model.Env
}

func c01SizeCases(n int, r *mon.Rand) []c01SizeCase {
	L := func(v model.Val) *model.Expr { return model.Lit(v) }
	var out []c01SizeCase
	env := baseEnv()
	add := func(name string, e *model.Expr) { out = append(out, c01SizeCase{name, e, env}) }
	// element families: longs (neighbouring hashes), strings, entity uids
	fams := map[string]func(i int) model.Val{
		"long":   func(i int) model.Val { return model.Long(int64(i) * 3) },
		"string": func(i int) model.Val { return model.Str(fmt.Sprintf("k%d", i)) },
		"uid":    func(i int) model.Val { return model.Ent("U", fmt.Sprintf("e%d", i)) },
	}
	absent := map[string]func(i int) model.Val{
		"long":   func(i int) model.Val { return model.Long(int64(i)*3 + 1) },
		"string": func(i int) model.Val { return model.Str(fmt.Sprintf("q%d", i)) },
		"uid":    func(i int) model.Val { return model.Ent("G", fmt.Sprintf("e%d", i)) },
	}
	for _, fam := range []string{"long", "string", "uid"} {
		el := make([]model.Val, n)
		for i := range el {
			el[i] = fams[fam](i)
		}
		S := model.Set(el...)
		// the same set as an expression whose members come in a shuffled order, first member twice
		perm := r.Perm(n)
		var exprs []*model.Expr
		for _, i := range perm {
			exprs = append(exprs, L(el[i]))
		}
		if n > 0 {
			exprs = append(exprs, L(el[perm[0]]))
		}
		SE := model.SetE(exprs...)
		pre := "set/" + fam + "/"
		add(pre+"isEmpty", model.Un(model.OIsEmpty, L(S)))
		add(pre+"isEmpty(expr)", model.Un(model.OIsEmpty, SE))
		add(pre+"==shuffled", model.Bin(model.OEq, L(S), SE))
		add(pre+"contains(absent)", model.Bin(model.OContains, L(S), L(absent[fam](n/2))))
		add(pre+"contains(other-kind)", model.Bin(model.OContains, L(S), L(model.Bool(true))))
		add(pre+"containsAll(self-expr)", model.Bin(model.OContainsAll, L(S), SE))
		add(pre+"containsAny(none)", model.Bin(model.OContainsAny, L(S), L(model.Set(absent[fam](0), absent[fam](n)))))
		if n > 0 {
			for _, i := range []int{0, n / 2, n - 1} {
				add(pre+"contains(member)", model.Bin(model.OContains, L(S), L(el[i])))
				add(pre+"contains(member,expr)", model.Bin(model.OContains, SE, L(el[i])))
				// one member replaced by an absent value: same size, differs in one place
				el2 := append([]model.Val{}, el...)
				el2[i] = absent[fam](i)
				S2 := model.Set(el2...)
				add(pre+"==one-swapped", model.Bin(model.OEq, L(S), L(S2)))
				add(pre+"!=one-swapped", model.Bin(model.ONe, SE, L(S2)))
				add(pre+"containsAll(one-swapped)", model.Bin(model.OContainsAll, L(S), L(S2)))
				add(pre+"containsAll(minus-one)", model.Bin(model.OContainsAll, L(S), L(model.Set(append(append([]model.Val{}, el[:i]...), el[i+1:]...)...))))
				add(pre+"containsAll(minus-one,reversed)", model.Bin(model.OContainsAll, L(model.Set(append(append([]model.Val{}, el[:i]...), el[i+1:]...)...)), L(S)))
				add(pre+"containsAny(one-shared)", model.Bin(model.OContainsAny, L(S), L(model.Set(absent[fam](1), el[i], absent[fam](2)))))
				add(pre+"containsAny(one-shared,reversed)", model.Bin(model.OContainsAny, L(model.Set(absent[fam](1), el[i])), SE))
			}
			ab := make([]model.Val, n)
			for i := range ab {
				ab[i] = absent[fam](i)
			}
			add(pre+"containsAny(disjoint-same-size)", model.Bin(model.OContainsAny, L(S), L(model.Set(ab...))))
			add(pre+"containsAll(disjoint-same-size)", model.Bin(model.OContainsAll, L(S), L(model.Set(ab...))))
		}
	}
	// records with n keys
	{
		keys := make([]string, n)
		vals := make([]model.Val, n)
		var kx []string
		var vx []*model.Expr
		for i := range keys {
			keys[i] = fmt.Sprintf("k%05d", i)
			vals[i] = model.Long(int64(i))
		}
		for _, i := range r.Perm(n) {
			kx = append(kx, keys[i])
			vx = append(vx, L(vals[i]))
		}
		R := model.Record(keys, vals)
		RE := model.RecE(kx, vx)
		add("record/==shuffled", model.Bin(model.OEq, L(R), RE))
		add("record/has(missing)", model.Has(L(R), "zz"))
		add("record/access(missing)", model.Access(L(R), "zz"))
		add("record/has(missing,expr)", model.Has(RE, "k"))
		if n > 0 {
			for _, i := range []int{0, n / 2, n - 1} {
				add("record/has(present)", model.Has(L(R), keys[i]))
				add("record/has(present,expr)", model.Has(RE, keys[i]))
				add("record/access(present)", model.Bin(model.OEq, model.Access(L(R), keys[i]), L(vals[i])))
				add("record/access(present,expr)", model.Bin(model.OEq, model.Access(RE, keys[i]), L(vals[i])))
				v2 := append([]model.Val{}, vals...)
				v2[i] = model.Long(-1)
				add("record/==one-value-differs", model.Bin(model.OEq, L(R), L(model.Record(keys, v2))))
				k2 := append([]string{}, keys...)
				k2[i] = keys[i] + "x"
				add("record/==one-key-differs", model.Bin(model.OEq, RE, L(model.Record(k2, vals))))
			}
		}
		// the request context and an entity with that many attributes / tags
		env2 := baseEnv()
		env2.Ctx = R
		env2.Store[model.Ent("U", "big").Key()] = &model.Entity{UID: model.Ent("U", "big"), Attrs: R, Tags: R}
		env2.P = model.Ent("U", "big")
		add2 := func(name string, e *model.Expr) { out = append(out, c01SizeCase{name, e, env2}) }
		for _, obj := range []*model.Expr{model.Var("context"), model.Var("principal"), L(model.Ent("U", "big"))} {
			add2("attrs/has(missing)", model.Has(obj, "zz"))
			add2("attrs/access(missing)", model.Access(obj, "zz"))
			if n > 0 {
				for _, i := range []int{0, n / 2, n - 1} {
					add2("attrs/has(present)", model.Has(obj, keys[i]))
					add2("attrs/access(present)", model.Bin(model.OEq, model.Access(obj, keys[i]), L(vals[i])))
				}
			}
		}
		for _, obj := range []*model.Expr{model.Var("principal"), L(model.Ent("U", "big"))} {
			add2("tags/hasTag(missing)", model.Bin(model.OHasTag, obj, L(model.Str("zz"))))
			add2("tags/getTag(missing)", model.Bin(model.OGetTag, obj, L(model.Str("zz"))))
			if n > 0 {
				for _, i := range []int{0, n / 2, n - 1} {
					add2("tags/hasTag(present)", model.Bin(model.OHasTag, obj, L(model.Str(keys[i]))))
					add2("tags/getTag(present)", model.Bin(model.OEq, model.Bin(model.OGetTag, obj, L(model.Str(keys[i]))), L(vals[i])))
				}
			}
		}
		add2("context/==literal", model.Bin(model.OEq, model.Var("context"), RE))
	}
	// strings of length n (1-, 2- and 4-byte characters)
	for ci, ch := range []string{"a", "é", "\U0001F600"} {
		s := strings.Repeat(ch, n)
		pre := fmt.Sprintf("string/%dbyte/", []int{1, 2, 4}[ci])
		add(pre+"==self", model.Bin(model.OEq, L(model.Str(s)), L(model.Str(strings.Repeat(ch, n)))))
		add(pre+"==last-differs", model.Bin(model.OEq, L(model.Str(s+"x")), L(model.Str(s+"y"))))
		add(pre+"like(literal)", model.Like(L(model.Str(s)), []model.PatElem{{Lit: s}}))
		add(pre+"like(literal+1)", model.Like(L(model.Str(s)), []model.PatElem{{Lit: s + ch}}))
		add(pre+"like(*tail)", model.Like(L(model.Str(s+"b")), []model.PatElem{{Wild: true}, {Lit: "b"}}))
		add(pre+"like(head*tail)", model.Like(L(model.Str("h"+s+"t")), []model.PatElem{{Lit: "h"}, {Wild: true}, {Lit: "t"}}))
		add(pre+"like(head*wrong-tail)", model.Like(L(model.Str("h"+s+"t")), []model.PatElem{{Lit: "h"}, {Wild: true}, {Lit: "u"}}))
		add(pre+"like(x*x*x on run)", model.Like(L(model.Str(s)), []model.PatElem{{Lit: ch}, {Wild: true}, {Lit: ch}, {Wild: true}, {Lit: ch}}))
		add(pre+"like(star-escaped)", model.Like(L(model.Str(s+"*")), []model.PatElem{{Lit: s + "*"}}))
		add(pre+"record-key", model.Bin(model.OEq, model.Access(L(model.Rec(s, model.Long(1), s+ch, model.Long(2))), s), L(model.Long(1))))
		add(pre+"set-member", model.Bin(model.OContains, L(model.Set(model.Str(s), model.Str(s+ch))), L(model.Str(s))))
		add(pre+"uid-id", model.Bin(model.OEq, L(model.Ent("U", s)), L(model.Ent("U", s+ch))))
	}
	// ancestor chains and wide parent lists of n entities
	{
		env3 := baseEnv()
		node := func(i int) model.Val { return model.Ent("U", fmt.Sprintf("c%d", i)) }
		for i := 0; i < n; i++ {
			var ps []model.Val
			if i+1 < n {
				ps = []model.Val{node(i + 1)}
			} else {
				ps = []model.Val{model.Ent("G", "top")}
			}
			env3.Store[node(i).Key()] = &model.Entity{UID: node(i), Parents: ps, Attrs: model.Rec(), Tags: model.Rec()}
		}
		wide := model.Ent("U", "wide")
		var wp []model.Val
		for i := 0; i < n; i++ {
			wp = append(wp, model.Ent("G", fmt.Sprintf("w%d", i)))
		}
		env3.Store[wide.Key()] = &model.Entity{UID: wide, Parents: wp, Attrs: model.Rec(), Tags: model.Rec()}
		if n > 0 {
			// the last wide parent has itself a parent
			lw := wp[n-1]
			env3.Store[lw.Key()] = &model.Entity{UID: lw, Parents: []model.Val{model.Ent("G", "top")}, Attrs: model.Rec(), Tags: model.Rec()}
		}
		env3.P = node(0)
		env3.R = wide
		add3 := func(name string, e *model.Expr) { out = append(out, c01SizeCase{name, e, env3}) }
		add3("chain/in(top)", model.Bin(model.OIn, model.Var("principal"), L(model.Ent("G", "top"))))
		add3("chain/in(elsewhere)", model.Bin(model.OIn, model.Var("principal"), L(model.Ent("G", "other"))))
		add3("chain/in(last)", model.Bin(model.OIn, L(node(0)), L(node(max(n-1, 0)))))
		add3("chain/in(reverse)", model.Bin(model.OIn, L(node(max(n-1, 0))), L(node(0))))
		add3("chain/in([elsewhere,top])", model.Bin(model.OIn, model.Var("principal"), L(model.Set(model.Ent("G", "other"), model.Ent("G", "top")))))
		add3("chain/is-in(top)", model.IsIn(model.Var("principal"), "U", L(model.Ent("G", "top"))))
		add3("wide/in(top)", model.Bin(model.OIn, model.Var("resource"), L(model.Ent("G", "top"))))
		add3("wide/in(elsewhere)", model.Bin(model.OIn, model.Var("resource"), L(model.Ent("G", "other"))))
		if n > 0 {
			for _, i := range []int{0, n / 2, n - 1} {
				add3("wide/in(parent)", model.Bin(model.OIn, model.Var("resource"), L(wp[i])))
			}
			// target set of n entities one of which is an ancestor
			ts := make([]model.Val, n)
			for i := range ts {
				ts[i] = model.Ent("G", fmt.Sprintf("x%d", i))
			}
			add3("chain/in(n targets, none)", model.Bin(model.OIn, model.Var("principal"), L(model.Set(ts...))))
			ts[n/2] = model.Ent("G", "top")
			add3("chain/in(n targets, one)", model.Bin(model.OIn, model.Var("principal"), L(model.Set(ts...))))
			add3("wide/in(n targets, one)", model.Bin(model.OIn, model.Var("resource"), L(model.Set(ts...))))
		}
	}
	// operator chains with n operators, left- and right-nested
	{
		one := L(model.Long(1))
		tr := L(model.Bool(true))
		chain := func(op model.Op, leaf, last *model.Expr, left bool) *model.Expr {
			e := leaf
			if !left {
				e = last
			}
			for i := 0; i < n; i++ {
				switch {
				case left && i == n-1:
					e = model.Bin(op, e, last)
				case left:
					e = model.Bin(op, e, leaf)
				default:
					e = model.Bin(op, leaf, e)
				}
			}
			return e
		}
		for _, left := range []bool{true, false} {
			side := map[bool]string{true: "left", false: "right"}[left]
			add("chain/+ "+side, model.Bin(model.OEq, chain(model.OAdd, one, one, left), L(model.Long(int64(n)+1))))
			add("chain/- "+side, model.Bin(model.OLe, chain(model.OSub, one, one, left), L(model.Long(1))))
			add("chain/&& all-true "+side, chain(model.OAnd, tr, tr, left))
			add("chain/&& last-false "+side, chain(model.OAnd, tr, L(model.Bool(false)), left))
			add("chain/|| last-true "+side, chain(model.OOr, L(model.Bool(false)), tr, left))
			add("chain/&& last-ill-typed "+side, chain(model.OAnd, tr, one, left))
			add("chain/+ last-overflows "+side, model.Bin(model.OEq, chain(model.OAdd, one, L(model.Long(9223372036854775807)), left), one))
		}
		e := tr
		for i := 0; i < n; i++ {
			e = model.If(tr, e, L(model.Bool(false)))
		}
		add("chain/if", e)
		e = tr
		for i := 0; i < n; i++ {
			e = model.Un(model.ONot, e)
		}
		add("chain/!", e)
		// nested records n deep, read back through n accesses (bounded: the text parser limits nesting)
		if n <= 257 {
			v := model.Long(7)
			for i := 0; i < n; i++ {
				v = model.Rec("a", v)
			}
			a := L(v)
			for i := 0; i < n; i++ {
				a = model.Access(a, "a")
			}
			add("chain/nested-record-access", model.Bin(model.OEq, a, L(model.Long(7))))
			sv := model.Long(7)
			for i := 0; i < n; i++ {
				sv = model.Set(sv)
			}
			add("chain/nested-set==", model.Bin(model.OEq, L(sv), L(sv)))
			add("chain/nested-set!=", model.Bin(model.OEq, L(sv), L(model.Set(sv))))
		}
	}
	return out
}

func c01Sizes(c *mon.Ctx) {
	ladder := c01Ladder
	if !c.Thorough() {
		// quick tier: up to 1025 (the reference evaluator's set operators are quadratic)
		for len(ladder) > 0 && ladder[len(ladder)-1] > 1025 {
			ladder = ladder[:len(ladder)-1]
		}
	}
	const parts = 8
	// cases are generated per size inside the worker (a pure function of the size and the seed)
	c.ParFor("sizes", len(ladder)*parts, func(w *mon.W, idx int) {
		i, part := idx/parts, idx%parts
		n := ladder[len(ladder)-1-i] // largest first
		cases := c01SizeCases(n, c.Rand("sizes-cases", n))
		for ci, cs := range cases {
			if ci%parts != part {
				continue
			}
			g := &bridge.Getter{M: bridge.ToEntityMap(cs.env), Budget: 64*(n+8)*(n+8) + 100000}
			cenv := bridge.ToEvalEnv(cs.env, g)
			d, got, werr := CheckExpr(cs.e, cs.env, cenv)
			w.Evals(1)
			outcome := "value"
			if werr != model.ENone {
				outcome = "err:" + werr.String()
			}
			w.Count("sizes:" + cs.name + " -> " + outcome)
			w.Count(fmt.Sprintf("sizes:n=%d", n))
			w.NonTrivial(fmt.Sprintf("sizes|%d|%s|%d", n, cs.name, ci))
			if d != nil {
				w.Violation("sizes: "+cs.name+" "+c01SizeBucket(n)+" "+d.Sig, d.What, map[string]any{"size": n, "case": cs.name, "cedar_go": got.String(), "model": d.Wit["model"], "minimal_subterm": clip(fmt.Sprint(d.Wit["minimal_subterm"]), 600)})
				continue
			}
			// compiled path: permit when { e } decides Allow iff the reference value is `true`
			want, we := model.Eval(cs.e, cs.env)
			wantAllow := we == model.ENone && want.K == model.KBool && want.B
			wantErr := we != model.ENone || want.K != model.KBool
			mp := &model.Policy{Permit: true, Conds: []model.Cond{{When: true, Body: cs.e}}}
			func() {
				defer func() {
					if r := recover(); r != nil {
						w.Violation("sizes: compiled "+cs.name+" "+c01SizeBucket(n)+" panic", fmt.Sprintf("compiled evaluation panicked: %v", r), map[string]any{"size": n, "case": cs.name})
					}
				}()
				cp := NewPolicy(bridge.ToPolicy(mp))
				ps := cedar.NewPolicySet()
				ps.Add("p", cp)
				dec, diag := cedar.Authorize(ps, &bridge.Getter{M: bridge.ToEntityMap(cs.env), Budget: 64*(n+8)*(n+8) + 100000}, bridge.ToRequest(cs.env))
				w.Evals(1)
				gotAllow := dec == cedar.Allow
				gotErr := len(diag.Errors) > 0
				if gotAllow != wantAllow || gotErr != wantErr {
					w.Violation("sizes: compiled "+cs.name+" "+c01SizeBucket(n)+fmt.Sprintf(" allow=%v/%v err=%v/%v", gotAllow, wantAllow, gotErr, wantErr),
						fmt.Sprintf("permit when { e } over an operand of size %d: decision %v errors %v, the reference value of e is %s", n, dec, diag.Errors, wantStr(want, we)),
						map[string]any{"size": n, "case": cs.name, "expr": clip(render.Canon(cs.e), 600)})
				}
			}()
		}
		if i%5 == 0 && part == 0 && len(cases) > 0 {
			w.Sample("sizes", map[string]any{"size": n, "cases": len(cases), "first": cases[0].name})
		}
	})
}

func c01SizeBucket(n int) string {
	switch {
	case n <= 3:
		return "n<=3"
	case n <= 17:
		return "n<=17"
	case n <= 129:
		return "n<=129"
	case n <= 1025:
		return "n<=1025"
	}
	return "n>1025"
}

func clip(s string, n int) string {
	if len(s) <= n {
		return s
	}
	return s[:n] + "…"
}
