package props

import (
	"github.com/cedar-policy/cedar-go/types"

	"verif/internal/gen"
	"verif/internal/mon"
)

// Additional C11 stream: the codec clause for entity uids over the WHOLE string universe
// (the law streams use a fixed prefix of it to keep pairs and triples enumerable). Every uid's
// text form is evaluated back through the policy parser and read by the typed text and
// binary decoders; its JSON form is decoded back; equality and hash agree with the original.
func init() {
	orig := Registry["C11"]
	Registry["C11"] = func(c *mon.Ctx) {
		orig(c)
		c.Rule += " Stream uid-codecs: entity uids with every string of the universe as id, text / typed text / binary / JSON forms decode to an equal uid with an equal hash."
		ids := append(append([]string{}, gen.Strings...), gen.EntityIDs...)
		c.ParFor("uid-codecs", len(ids)*len(gen.EntityTypes), func(w *mon.W, i int) {
			uid := types.NewEntityUID(types.EntityType(gen.EntityTypes[i%len(gen.EntityTypes)]), types.String(ids[i/len(gen.EntityTypes)]))
			w.Evals(2)
			w.Count("uid through its text and JSON forms")
			w.NonTrivial(uid.String())
			check := func(form string, back types.Value, bad string) {
				switch {
				case bad != "":
					w.Violation("codec:"+form+" form of an entity uid does not decode ["+strClass(string(uid.ID))+"]", uid.String()+": "+bad, map[string]any{"uid": uid.String()})
				case !back.Equal(uid) || !uid.Equal(back) || types.VerifHash(back) != types.VerifHash(uid):
					w.Violation("codec:"+form+" form of an entity uid decodes to a different value ["+strClass(string(uid.ID))+"]", uid.String()+" -> "+back.String(), map[string]any{"uid": uid.String()})
				}
			}
			back, bad := c11DecodeText(c11Text(uid))
			check("text", back, bad)
			if b, bad := c11EncodeJSON(uid); bad != "" {
				w.Violation("codec:json form of an entity uid cannot be produced", uid.String()+": "+bad, map[string]any{"uid": uid.String()})
			} else {
				back, bad := c11DecodeJSON(b)
				check("json", back, bad)
			}
		})
	}
}
