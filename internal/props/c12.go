package props

// C12 - scalar and extension values have exact, canonical text forms.
//
// Streams (all deterministic functions of seed/stream/index):
//   decimal/*  duration/*  datetime/*  ip/*  long/*   values, literals, exhaustive edit-distance mutants, constructors
//   unicode    every Unicode scalar value in strings, entity ids and record keys
//   nested     random nested values: MarshalCedar -> policy parser -> evaluator
//   entityuid/*  EntityUID.UnmarshalCedar round trip and literal strictness
//
// Files: c12.go (core), c12_ref.go (independent reference helpers), c12_num.go, c12_dt.go,
// c12_ip.go, c12_str.go (per-type streams).

import (
	"fmt"
	"runtime/debug"
	"strings"

	cedar "github.com/cedar-policy/cedar-go"
	"github.com/cedar-policy/cedar-go/types"
	xast "github.com/cedar-policy/cedar-go/x/exp/ast"
	"github.com/cedar-policy/cedar-go/x/exp/eval"

	"verif/internal/bridge"
	"verif/internal/model"
	"verif/internal/mon"
)

func init() { Registry["C12"] = C12 }

type c12 struct{ c *mon.Ctx }

func C12(c *mon.Ctx) {
	c.Rule = "case = one value or one literal string of a scalar/extension type. Values: boundary lists + random int64 payloads (decimal, duration, datetime, long), every prefix length and random addresses (ip), every Unicode scalar value (strings, entity ids, record keys; quick: all < U+3000 plus every 13th), random nested sets/records. " +
		"For a value v: String()/MarshalCedar() must equal the independent printer's canonical text (decimal, duration, datetime, long, IPv4) or be a valid literal of v under the independent parser (IPv6, strings), Parse(String(v)) == v, and the Cedar rendering embedded in a policy must parse and evaluate (x/exp/eval) to v. " +
		"Literals: alternative spellings of a value, hostile field combinations, random 1-2 edits and ALL edit-distance-1 (thorough: distance-2 for bases <= 12 bytes) mutants over the literal's alphabet; accept/reject and value must agree with the independent big-integer parsers. " +
		"Constructors (NewDecimal e in [-6,16] with directed wrap candidates i ~ k*2^64/10^e, NewDecimalFromInt, NewDecimalFromFloat, NewDuration, Duration.Duration, NewDatetime, Datetime.Time): exact value or error. " +
		"distinct_nontrivial = distinct (stream, input) pairs; in the thorough tier the bulk random streams register every 8th case to bound memory."
	c.Assume = []string{
		"the independent parsers/printers in /verif/internal/model/scalars.go and props/c12_ref.go encode the Cedar literal syntax (decimal -?d+.d{1,4}; duration -?(Nd)?(Nh)?(Nm)?(Ns)?(Nms)? non-empty, range checked after the sign; RFC 80 datetime forms + 9-digit expanded years, range checked after applying the offset; ip: dotted quad without leading zeros / RFC 4291 hex groups with one '::', no embedded IPv4, no zone, /prefix without sign or leading zeros)",
		"expanded-year datetime spellings whose year lies in 0..9999 (e.g. +000002024-01-01) are not asserted to be accepted (RFC 110 does not pin this down); they are asserted not to yield a wrong value",
		"IPv6 String() is not asserted byte-for-byte (only: it is a valid literal of the same value); IPv4, decimal, duration, datetime and long printing is asserted byte-for-byte",
		"float constructors are approximate by documentation: asserted are NaN/Inf/out-of-range => error, in-range => |result - 10000 f| <= 1 + rounding error, exactly representable products => exact",
		"entity types are restricted to valid Cedar paths and strings to valid UTF-8; EntityUID.UnmarshalCedar is asserted only on the token-tight form Path::\"...\" (no whitespace/comments) and only the id literal's well-formedness is asserted, not the type's",
		"an error return is always acceptable for constructors outside their documented domain (NewDecimal exponent outside [-4,14])",
	}
	c.Floor = 20000
	k := &c12{c: c}
	k.decimalStreams()
	k.durationStreams()
	k.longStreams()
	k.datetimeStreams()
	k.ipStreams()
	k.stringStreams()
}

// ---------------------------------------------------------------- plumbing

// safe runs one observation; a panic inside cedar-go becomes a violation naming the function.
func (k *c12) safe(w *mon.W, site, input string, fn func()) {
	defer func() {
		if r := recover(); r != nil {
			st := debug.Stack()
			ps := mon.PanicSite(st)
			if strings.HasPrefix(ps, "harness:") || ps == "unknown" {
				panic(r) // a harness bug: let the runner report it as such
			}
			w.Violation("panic:"+ps+" ("+site+")", fmt.Sprintf("%s panicked on %q: %v", ps, input, r),
				map[string]any{"site": site, "input": input, "panic": fmt.Sprint(r)})
		}
	}()
	fn()
}

// reg registers a case as distinct/non-trivial; bulk streams pass sample=true.
func (k *c12) reg(w *mon.W, key string, bulk bool) {
	if bulk && k.c.Thorough() && w.Index%8 != 0 {
		return
	}
	w.NonTrivial(w.Stream + "|" + key)
}

func c12Feature(i int64) string { return feature(model.Long(i))[4:] } // "(pos)" ...

var c12Env = eval.Env{Entities: types.EntityMap{}, Principal: types.NewEntityUID("U", "a"), Action: types.NewEntityUID("Action", "view"),
	Resource: types.NewEntityUID("G", "b"), Context: types.NewRecord(nil)}

// c12EvalText embeds the expression text in a policy, parses it with cedar-go's text parser
// and evaluates the condition body with the un-optimised evaluator.
func c12EvalText(text string) (g Got) {
	defer func() {
		if r := recover(); r != nil {
			g = Got{Panic: fmt.Sprint(r), Site: mon.PanicSite(debug.Stack())}
		}
	}()
	var p cedar.Policy
	if err := p.UnmarshalCedar([]byte("permit(principal, action, resource) when { " + text + " };")); err != nil {
		return Got{IsErr: true, Class: "parse", Msg: err.Error()}
	}
	pol := (*xast.Policy)(p.AST())
	if len(pol.Conditions) != 1 {
		return Got{BadVal: fmt.Sprintf("%d conditions", len(pol.Conditions))}
	}
	body := pol.Conditions[0].Body
	return safeEval(func() (types.Value, error) { return eval.Eval(body, c12Env) })
}

func c12GotClass(g Got) string {
	switch {
	case g.Panic != "":
		return "panic@" + g.Site
	case g.BadVal != "":
		return "badvalue"
	case g.IsErr && g.Class == "parse":
		return "parse-error"
	case g.IsErr:
		return "eval-error"
	}
	return "wrong-value"
}

// c12Render: cedar-go's Cedar text of v, and whether it parses and evaluates back to v.
func c12Render(v model.Val) (ok bool, text string, g Got) {
	defer func() {
		if r := recover(); r != nil {
			ok, g = false, Got{Panic: fmt.Sprint(r), Site: mon.PanicSite(debug.Stack())}
		}
	}()
	text = string(bridge.ToValue(v).MarshalCedar())
	g = c12EvalText(text)
	ok = g.Panic == "" && g.BadVal == "" && !g.IsErr && g.Val.Equal(v)
	return
}

// c12Shrink localises a value whose rendering does not come back to a minimal failing part.
func c12Shrink(v model.Val) model.Val {
	fails := func(x model.Val) bool { ok, _, _ := c12Render(x); return !ok }
	shrinkStr := func(s string, mk func(string) model.Val) (model.Val, bool) {
		for _, r := range s {
			for _, cand := range []string{string(r), "a" + string(r)} {
				if cand != s && fails(mk(cand)) {
					return mk(cand), true
				}
			}
		}
		return model.Val{}, false
	}
	switch v.K {
	case model.KSet:
		for _, e := range v.Elems {
			if fails(e) {
				return c12Shrink(e)
			}
		}
	case model.KRecord:
		for _, e := range v.Vals {
			if fails(e) {
				return c12Shrink(e)
			}
		}
		for _, key := range v.Keys {
			one := model.Rec(key, model.Long(1))
			if len(v.Keys) == 1 && v.Vals[0].Equal(model.Long(1)) {
				break
			}
			if fails(one) {
				return c12Shrink(one)
			}
		}
		if len(v.Keys) == 1 {
			if m, ok := shrinkStr(v.Keys[0], func(s string) model.Val { return model.Rec(s, model.Long(1)) }); ok {
				return m
			}
		}
	case model.KString:
		if m, ok := shrinkStr(v.S, model.Str); ok {
			return m
		}
	case model.KEntity:
		if m, ok := shrinkStr(v.ID, func(s string) model.Val { return model.Ent("T", s) }); ok {
			return m
		}
		if v.T != "T" && fails(model.Ent("T", v.ID)) {
			return model.Ent("T", v.ID)
		}
	}
	return v
}

// c12LitSig names the cause of a string-literal failure: either the printer emitted an invalid
// literal (site at fault) or a valid literal of the right string was not read back (parser).
func c12LitSig(site, lit, s, gotc string) string {
	dec, ok, bad := c12StrDecode(lit)
	switch {
	case !ok:
		return site + ":MarshalCedar emits an invalid string literal (" + bad + ")"
	case dec != s:
		return site + ":MarshalCedar literal denotes a different string (" + c12StrClass(s) + ")"
	}
	return "parse:valid string literal containing " + c12StrClass(s) + " not read back (" + gotc + ")"
}

// c12RenderSig derives the signature from the minimal failing value.
func c12RenderSig(mv model.Val, text string, g Got) string {
	gotc := c12GotClass(g)
	switch mv.K {
	case model.KDatetime:
		if mv.I < DatetimeLowBound {
			return "datetime:first-day-of-range-not-parseable"
		}
		return "datetime:MarshalCedar" + c12Feature(mv.I) + " " + gotc
	case model.KString:
		return c12LitSig("string", text, mv.S, gotc)
	case model.KEntity:
		if i := strings.Index(text, `::"`); i >= 0 {
			return c12LitSig("entityuid", text[i+2:], mv.ID, gotc)
		}
	case model.KRecord:
		if len(mv.Keys) == 1 && strings.HasPrefix(text, "{") && strings.HasSuffix(text, ":1}") {
			return c12LitSig("record-key", text[1:len(text)-3], mv.Keys[0], gotc)
		}
		return fmt.Sprintf("record:MarshalCedar(%d keys) %s", min(len(mv.Keys), 3), gotc)
	case model.KIP:
		if c12IsMapped(mv.IP) && strings.Contains(text, ".") {
			return c12MappedSig
		}
		return "ip:MarshalCedar(" + c12IPClass(mv.IP) + ") " + gotc
	case model.KDecimal, model.KDuration, model.KLong:
		return mv.K.String() + ":MarshalCedar" + c12Feature(mv.I) + " " + gotc
	}
	return mv.K.String() + ":MarshalCedar " + gotc
}

// renderCheck: the Cedar rendering of v parses and evaluates to v (localised on failure).
func (k *c12) renderCheck(w *mon.W, v model.Val) bool {
	ok, text, g := c12Render(v)
	w.Count("render+parse+eval " + v.K.String())
	if ok {
		return true
	}
	m := c12Shrink(v)
	_, mtext, mg := c12Render(m)
	w.Violation(c12RenderSig(m, mtext, mg), fmt.Sprintf("MarshalCedar of %s is `%s`, which the policy parser/evaluator turns into %s", m, mtext, mg),
		map[string]any{"value": v.String(), "cedar_go_text": text, "result": g.String(), "minimal_value": m.String(), "minimal_text": mtext, "minimal_result": mg.String()})
	return false
}

// ed1 runs check over every edit-distance-1 mutant of every base (exhaustive), and in the
// thorough tier over every distance-2 mutant of bases of at most 12 bytes.
func (k *c12) ed1(stream string, bases, alpha []string, check func(w *mon.W, s string)) {
	var jobs []string
	for _, b := range bases {
		jobs = append(jobs, b)
		jobs = append(jobs, c12Ed1All(b, alpha)...)
	}
	k.c.ParFor(stream+"/ed1", len(jobs), func(w *mon.W, i int) {
		w.Count("ed<=1 mutants")
		k.reg(w, jobs[i], false)
		check(w, jobs[i])
	})
	k.c.Extra[stream+"/ed1_exhaustive_over"] = map[string]any{"bases": bases, "alphabet": alpha, "strings": len(jobs)}
	if !k.c.Thorough() {
		return
	}
	var jobs2 []string
	var short []string
	for _, b := range bases {
		if len(b) <= 12 {
			short = append(short, b)
			jobs2 = append(jobs2, c12Ed1All(b, alpha)...)
		}
	}
	k.c.ParFor(stream+"/ed2", len(jobs2), func(w *mon.W, i int) {
		k.reg(w, jobs2[i], false)
		for _, s := range c12Ed1All(jobs2[i], alpha) {
			w.Count("ed2 mutants")
			check(w, s)
		}
	})
	k.c.Extra[stream+"/ed2_exhaustive_over"] = map[string]any{"bases": short, "outer": len(jobs2)}
}
