package props

import (
	"bytes"
	"encoding/json"
	"fmt"

	"github.com/cedar-policy/cedar-go/types"

	"verif/internal/mon"
)

// Additional C13 stream: authorization RESULTS decoded into receivers that already hold
// another result. The value streams decode entities, records, sets and requests into used
// destinations; here the same is done for Decision, Diagnostic and a response struct holding
// both - by direct UnmarshalJSON, by json.Unmarshal into a reused struct, through one
// json.Decoder reading a stream of documents into one variable, and into a slice whose
// elements encoding/json reuses. The Decision (a type with its own decoder) is what the
// document says, whatever the receiver held; the Diagnostic - a plain struct with omitempty
// fields, which encoding/json merges into an existing value by design - is reset before each
// decode and compared as usual.
func init() {
	orig := Registry["C13"]
	Registry["C13"] = func(c *mon.Ctx) {
		orig(c)
		c.Rule += " Stream results-into-used-receivers: every ordered pair (old, new) of Decision values and of random Diagnostics decoded into one receiver by UnmarshalJSON, json.Unmarshal into a reused response struct, one json.Decoder over a stream of documents, and a pre-filled slice: the receiver equals the new object."
		c13results(c)
	}
}

type c13Resp struct {
	Decision   types.Decision   `json:"decision"`
	Diagnostic types.Diagnostic `json:"diagnostic"`
}

func c13results(c *mon.Ctx) {
	c.ParFor("results-into-used-receivers", c.N(400, 8000), func(w *mon.W, i int) {
		r := w.Rand()
		n := 2 + r.Intn(6)
		seq := make([]c13Resp, n)
		var stream bytes.Buffer
		docs := make([][]byte, n)
		for k := range seq {
			seq[k] = c13Resp{Decision: types.Decision(r.Bool()), Diagnostic: randDiagnostic(r)}
			if i%2 == 0 { // alternate allow / deny so that every transition occurs
				seq[k].Decision = types.Decision((k+i/2)%2 == 0)
			}
			b, err := json.Marshal(seq[k])
			if err != nil {
				w.Inconclusive("results: json.Marshal fails: " + err.Error())
				return
			}
			docs[k] = b
			stream.Write(b)
			stream.WriteByte('\n')
		}
		w.NonTrivial(fmt.Sprint("results/", i))
		fail := func(how string, k int, got c13Resp) {
			w.Violation("result-json:decoded into a receiver holding another result:"+how,
				fmt.Sprintf("%s: document %d decoded over document %d gives decision=%v, encoded decision=%v (diagnostic equal: %v)", how, k, k-1, got.Decision, seq[k].Decision, diagEqual(got.Diagnostic, seq[k].Diagnostic)),
				map[string]any{"document": string(docs[k]), "previous_document": string(docs[max(0, k-1)]), "how": how})
		}
		// 1. one struct, json.Unmarshal again and again
		var one c13Resp
		for k := range seq {
			one.Diagnostic = types.Diagnostic{} // plain struct with omitempty fields: encoding/json merges into what is there, by design
			if err := json.Unmarshal(docs[k], &one); err != nil || one.Decision != seq[k].Decision || !diagEqual(one.Diagnostic, seq[k].Diagnostic) {
				fail("json.Unmarshal into a reused struct", k, one)
				return
			}
			w.Evals(1)
		}
		// 2. one json.Decoder, one variable
		dec := json.NewDecoder(&stream)
		var two c13Resp
		for k := range seq {
			two.Diagnostic = types.Diagnostic{}
			if err := dec.Decode(&two); err != nil || two.Decision != seq[k].Decision || !diagEqual(two.Diagnostic, seq[k].Diagnostic) {
				fail("json.Decoder stream into one variable", k, two)
				return
			}
			w.Evals(1)
		}
		// 3. the typed decoders called directly on used receivers
		var d types.Decision
		var dg types.Diagnostic
		for k := range seq {
			db, _ := json.Marshal(seq[k].Decision)
			gb, _ := json.Marshal(seq[k].Diagnostic)
			e1 := d.UnmarshalJSON(db)
			dg = types.Diagnostic{}
			e2 := json.Unmarshal(gb, &dg)
			if e1 != nil || e2 != nil || d != seq[k].Decision || !diagEqual(dg, seq[k].Diagnostic) {
				fail("Decision.UnmarshalJSON / Diagnostic on used receivers", k, c13Resp{Decision: d, Diagnostic: dg})
				return
			}
			w.Evals(1)
		}
		// 4. a slice that already holds the complementary decisions
		pre := make([]types.Decision, n)
		want := make([]types.Decision, n)
		for k := range pre {
			want[k] = seq[k].Decision
			pre[k] = !seq[k].Decision
		}
		wb, _ := json.Marshal(want)
		if err := json.Unmarshal(wb, &pre); err != nil || fmt.Sprint(pre) != fmt.Sprint(want) {
			w.Violation("result-json:decoded into a receiver holding another result:pre-filled []Decision", fmt.Sprintf("json.Unmarshal(%s) into a slice holding the complementary decisions gives %v", wb, pre), map[string]any{"document": string(wb)})
		}
		w.Evals(1)
	})
}
