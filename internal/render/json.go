package render

import (
	"encoding/json"
	"sort"

	"verif/internal/model"
)

// The harness's own encoder for the Cedar JSON policy format (EST), written from the
// published format description: it shares no code with cedar-go's codec.

type J = map[string]any

func entJSON(v model.Val) J { return J{"type": v.T, "id": v.ID} }

// ValueJSON encodes a value in the Cedar JSON value format with explicit escapes.
func ValueJSON(v model.Val) any {
	switch v.K {
	case model.KBool:
		return v.B
	case model.KLong:
		return json.Number(model.Long(v.I).String())
	case model.KString:
		return v.S
	case model.KEntity:
		return J{"__entity": entJSON(v)}
	case model.KSet:
		out := make([]any, len(v.Elems))
		for i, e := range v.Elems {
			out[i] = ValueJSON(e)
		}
		return out
	case model.KRecord:
		out := J{}
		for i, k := range v.Keys {
			out[k] = ValueJSON(v.Vals[i])
		}
		return out
	case model.KDecimal:
		return J{"__extn": J{"fn": "decimal", "arg": model.PrintDecimal(v.I)}}
	case model.KDatetime:
		return J{"__extn": J{"fn": "datetime", "arg": model.PrintDatetime(v.I)}}
	case model.KDuration:
		return J{"__extn": J{"fn": "duration", "arg": model.PrintDuration(v.I)}}
	case model.KIP:
		return J{"__extn": J{"fn": "ip", "arg": model.PrintIP(v.IP)}}
	}
	return nil
}

var jsonBin = map[model.Op]string{model.OEq: "==", model.ONe: "!=", model.OIn: "in", model.OLt: "<", model.OLe: "<=", model.OGt: ">", model.OGe: ">=",
	model.OAnd: "&&", model.OOr: "||", model.OAdd: "+", model.OSub: "-", model.OMul: "*", model.OContains: "contains", model.OContainsAll: "containsAll",
	model.OContainsAny: "containsAny", model.OHasTag: "hasTag", model.OGetTag: "getTag"}

func PatternJSON(p []model.PatElem) []any {
	out := []any{}
	for _, e := range p {
		if e.Wild {
			out = append(out, "Wildcard")
		}
		if e.Lit != "" {
			out = append(out, J{"Literal": e.Lit})
		}
	}
	if len(out) == 0 {
		// the empty pattern is spelled as one empty literal
		out = append(out, J{"Literal": ""})
	}
	return out
}

func ExprJSON(e *model.Expr) any {
	a := e.Args
	switch e.Op {
	case model.OLit:
		return J{"Value": ValueJSON(e.V)}
	case model.OVar:
		return J{"Var": e.S}
	case model.ONot:
		return J{"!": J{"arg": ExprJSON(a[0])}}
	case model.ONeg:
		return J{"neg": J{"arg": ExprJSON(a[0])}}
	case model.OIsEmpty:
		return J{"isEmpty": J{"arg": ExprJSON(a[0])}}
	case model.OIf:
		return J{"if-then-else": J{"if": ExprJSON(a[0]), "then": ExprJSON(a[1]), "else": ExprJSON(a[2])}}
	case model.OHas:
		return J{"has": J{"left": ExprJSON(a[0]), "attr": e.S}}
	case model.OAccess:
		return J{".": J{"left": ExprJSON(a[0]), "attr": e.S}}
	case model.OLike:
		return J{"like": J{"left": ExprJSON(a[0]), "pattern": PatternJSON(e.Pat)}}
	case model.OIs:
		return J{"is": J{"left": ExprJSON(a[0]), "entity_type": e.S}}
	case model.OIsIn:
		return J{"is": J{"left": ExprJSON(a[0]), "entity_type": e.S, "in": ExprJSON(a[1])}}
	case model.OSet:
		out := make([]any, len(a))
		for i, x := range a {
			out[i] = ExprJSON(x)
		}
		return J{"Set": out}
	case model.ORecord:
		out := J{}
		for i, x := range a {
			out[e.Keys[i]] = ExprJSON(x)
		}
		return J{"Record": out}
	case model.OExt:
		out := make([]any, len(a))
		for i, x := range a {
			out[i] = ExprJSON(x)
		}
		return J{e.S: out}
	}
	if k, ok := jsonBin[e.Op]; ok {
		return J{k: J{"left": ExprJSON(a[0]), "right": ExprJSON(a[1])}}
	}
	panic("render: no JSON form for op " + e.Op.String())
}

func scopeJSON(s model.Scope) J {
	switch s.Kind {
	case model.ScEq:
		return J{"op": "==", "entity": entJSON(s.Ent)}
	case model.ScIn:
		return J{"op": "in", "entity": entJSON(s.Ent)}
	case model.ScInSet:
		es := make([]any, len(s.Ents))
		for i, e := range s.Ents {
			es[i] = entJSON(e)
		}
		return J{"op": "in", "entities": es}
	case model.ScIs:
		return J{"op": "is", "entity_type": s.Type}
	case model.ScIsIn:
		return J{"op": "is", "entity_type": s.Type, "in": J{"entity": entJSON(s.Ent)}}
	}
	return J{"op": "All"}
}

func PolicyObj(p *model.Policy) J {
	eff := "forbid"
	if p.Permit {
		eff = "permit"
	}
	conds := make([]any, len(p.Conds))
	for i, c := range p.Conds {
		kind := "unless"
		if c.When {
			kind = "when"
		}
		conds[i] = J{"kind": kind, "body": ExprJSON(c.Body)}
	}
	out := J{"effect": eff, "principal": scopeJSON(p.P), "action": scopeJSON(p.A), "resource": scopeJSON(p.R), "conditions": conds}
	if len(p.Annots) > 0 {
		an := J{}
		for _, a := range p.Annots {
			an[a.Key] = a.Val
		}
		out["annotations"] = an
	}
	return out
}

// PolicyJSON renders the policy document (object keys in sorted order: deterministic).
func PolicyJSON(p *model.Policy) []byte {
	b, err := json.Marshal(PolicyObj(p))
	if err != nil {
		panic(err)
	}
	return b
}

// PolicySetJSON renders {"staticPolicies": {id: policy}, "templates": {}, "templateLinks": []}.
func PolicySetJSON(ids []string, ps []*model.Policy) []byte {
	sp := J{}
	for i, id := range ids {
		sp[id] = PolicyObj(ps[i])
	}
	b, err := json.Marshal(J{"staticPolicies": sp, "templates": J{}, "templateLinks": []any{}})
	if err != nil {
		panic(err)
	}
	return b
}

func SortedKeys(m J) []string {
	ks := make([]string, 0, len(m))
	for k := range m {
		ks = append(ks, k)
	}
	sort.Strings(ks)
	return ks
}
