// Package render is the harness's independent Cedar text printer and policy-JSON encoder.
package render

import (
	"fmt"
	"strings"

	"verif/internal/model"
	"verif/internal/mon"
)

type Mode int

const (
	Minimal Mode = iota // only the parentheses precedence/associativity require
	Full                // every operand parenthesised
)

type Printer struct {
	Mode  Mode
	R     *mon.Rand // nil: deterministic canonical choices, single-space layout
	Noise bool      // random whitespace / comments between tokens
	Sugar bool      // allow `a has b.c` sugar and identifier-style keys where legal
}

var reserved = map[string]bool{"true": true, "false": true, "if": true, "then": true, "else": true, "in": true,
	"like": true, "has": true, "is": true, "__cedar": true}

func IsIdent(s string) bool {
	if s == "" || reserved[s] {
		return false
	}
	for i := 0; i < len(s); i++ {
		c := s[i]
		if c == '_' || (c >= 'a' && c <= 'z') || (c >= 'A' && c <= 'Z') || (i > 0 && c >= '0' && c <= '9') {
			continue
		}
		return false
	}
	return true
}

// precedence levels
const (
	lvIf = iota
	lvOr
	lvAnd
	lvRel
	lvAdd
	lvMul
	lvUnary
	lvMember
	lvPrimary
)

func isMethodExt(e *model.Expr) bool {
	info, ok := model.ExtArity[e.S]
	if ok {
		return info.Method
	}
	return len(e.Args) > 0
}

func level(e *model.Expr) int {
	switch e.Op {
	case model.OLit:
		if e.V.K == model.KLong && e.V.I < 0 {
			return lvUnary
		}
		return lvPrimary
	case model.OVar, model.OSet, model.ORecord:
		return lvPrimary
	case model.OIf:
		return lvIf
	case model.OOr:
		return lvOr
	case model.OAnd:
		return lvAnd
	case model.OEq, model.ONe, model.OLt, model.OLe, model.OGt, model.OGe, model.OIn, model.OHas, model.OLike, model.OIs, model.OIsIn:
		return lvRel
	case model.OAdd, model.OSub:
		return lvAdd
	case model.OMul:
		return lvMul
	case model.ONot, model.ONeg:
		return lvUnary
	case model.OAccess, model.OHasTag, model.OGetTag, model.OContains, model.OContainsAll, model.OContainsAny, model.OIsEmpty:
		return lvMember
	case model.OExt:
		if isMethodExt(e) {
			return lvMember
		}
		return lvPrimary
	}
	return lvPrimary
}

type tokens struct{ t []string }

func (b *tokens) add(s ...string) { b.t = append(b.t, s...) }

// operand emits e in a slot that requires at least level min.
func (p *Printer) operand(b *tokens, e *model.Expr, min int) {
	lv := level(e)
	need := lv < min
	if p.Mode == Full && lv < lvPrimary {
		need = true
	}
	if need {
		b.add("(")
		p.expr(b, e)
		b.add(")")
		return
	}
	p.expr(b, e)
}

func (p *Printer) coin() bool { return p.R != nil && p.R.Bool() }

func (p *Printer) key(k string) string {
	if p.Sugar && IsIdent(k) && p.coin() {
		return k
	}
	return model.QuoteString(k)
}

var binSym = map[model.Op]string{model.OOr: "||", model.OAnd: "&&", model.OEq: "==", model.ONe: "!=", model.OLt: "<", model.OLe: "<=",
	model.OGt: ">", model.OGe: ">=", model.OIn: "in", model.OAdd: "+", model.OSub: "-", model.OMul: "*"}

var methodName = map[model.Op]string{model.OHasTag: "hasTag", model.OGetTag: "getTag", model.OContains: "contains",
	model.OContainsAll: "containsAll", model.OContainsAny: "containsAny", model.OIsEmpty: "isEmpty"}

func PatternText(pat []model.PatElem) string {
	var sb strings.Builder
	sb.WriteByte('"')
	for _, pe := range pat {
		if pe.Wild {
			sb.WriteByte('*')
		}
		for _, r := range pe.Lit {
			switch {
			case r == '*':
				sb.WriteString(`\*`)
			case r == '\\':
				sb.WriteString(`\\`)
			case r == '"':
				sb.WriteString(`\"`)
			case r == '\n':
				sb.WriteString(`\n`)
			case r == '\r':
				sb.WriteString(`\r`)
			case r == '\t':
				sb.WriteString(`\t`)
			case r == 0:
				sb.WriteString(`\0`)
			case r >= 0x20 && r < 0x7f:
				sb.WriteRune(r)
			default:
				fmt.Fprintf(&sb, `\u{%x}`, r)
			}
		}
	}
	sb.WriteByte('"')
	return sb.String()
}

func (p *Printer) value(b *tokens, v model.Val) {
	switch v.K {
	case model.KSet:
		b.add("[")
		for i, e := range v.Elems {
			if i > 0 {
				b.add(",")
			}
			p.value(b, e)
		}
		b.add("]")
	case model.KRecord:
		b.add("{")
		for i, k := range v.Keys {
			if i > 0 {
				b.add(",")
			}
			b.add(p.key(k), ":")
			p.value(b, v.Vals[i])
		}
		b.add("}")
	case model.KDecimal:
		b.add("decimal", "(", model.QuoteString(model.PrintDecimal(v.I)), ")")
	case model.KDatetime:
		b.add("datetime", "(", model.QuoteString(model.PrintDatetime(v.I)), ")")
	case model.KDuration:
		b.add("duration", "(", model.QuoteString(model.PrintDuration(v.I)), ")")
	case model.KIP:
		b.add("ip", "(", model.QuoteString(model.PrintIP(v.IP)), ")")
	case model.KEntity:
		b.add(v.T + "::" + model.QuoteString(v.ID))
	case model.KLong:
		if v.I < 0 && p.Noise && p.coin() {
			// the sign and the digits are separate tokens: layout may come between them
			b.add("-", v.String()[1:])
			return
		}
		b.add(v.String())
	default:
		b.add(v.String())
	}
}

func (p *Printer) args(b *tokens, args []*model.Expr) {
	b.add("(")
	for i, a := range args {
		if i > 0 {
			b.add(",")
		}
		p.operand(b, a, lvIf)
	}
	if len(args) > 0 && p.Noise && p.coin() {
		b.add(",")
	}
	b.add(")")
}

func (p *Printer) expr(b *tokens, e *model.Expr) {
	a := e.Args
	switch e.Op {
	case model.OLit:
		p.value(b, e.V)
	case model.OVar:
		b.add(e.S)
	case model.OIf:
		b.add("if")
		p.operand(b, a[0], lvIf)
		b.add("then")
		p.operand(b, a[1], lvIf)
		b.add("else")
		p.operand(b, a[2], lvIf)
	case model.OOr, model.OAnd, model.OAdd, model.OSub, model.OMul:
		lv := level(e)
		p.operand(b, a[0], lv)
		b.add(binSym[e.Op])
		p.operand(b, a[1], lv+1)
	case model.OEq, model.ONe, model.OLt, model.OLe, model.OGt, model.OGe, model.OIn:
		p.operand(b, a[0], lvAdd)
		b.add(binSym[e.Op])
		p.operand(b, a[1], lvAdd)
	case model.OHas:
		p.operand(b, a[0], lvAdd)
		b.add("has")
		if IsIdent(e.S) && (p.R == nil || p.R.Bool()) {
			b.add(e.S)
		} else {
			b.add(model.QuoteString(e.S))
		}
	case model.OLike:
		p.operand(b, a[0], lvAdd)
		b.add("like", PatternText(e.Pat))
	case model.OIs:
		p.operand(b, a[0], lvAdd)
		b.add("is", e.S)
	case model.OIsIn:
		p.operand(b, a[0], lvAdd)
		b.add("is", e.S, "in")
		p.operand(b, a[1], lvAdd)
	case model.ONot, model.ONeg:
		sym := "!"
		if e.Op == model.ONeg {
			sym = "-"
		}
		b.add(sym)
		in := a[0]
		// never chain unary operators without parentheses; a non-negative integer literal
		// under '-' is parenthesised so that it is not read as a negative literal
		if level(in) < lvMember || (e.Op == model.ONeg && in.Op == model.OLit && in.V.K == model.KLong) || p.Mode == Full && level(in) < lvPrimary {
			b.add("(")
			p.expr(b, in)
			b.add(")")
		} else {
			p.expr(b, in)
		}
	case model.OAccess:
		p.operand(b, a[0], lvMember)
		if IsIdent(e.S) && (p.R == nil || p.R.P(0.7)) {
			b.add(".", e.S)
		} else {
			b.add("[", model.QuoteString(e.S), "]")
		}
	case model.OHasTag, model.OGetTag, model.OContains, model.OContainsAll, model.OContainsAny, model.OIsEmpty:
		p.operand(b, a[0], lvMember)
		b.add(".", methodName[e.Op])
		p.args(b, a[1:])
	case model.OSet:
		b.add("[")
		for i, x := range a {
			if i > 0 {
				b.add(",")
			}
			p.operand(b, x, lvIf)
		}
		if len(a) > 0 && p.Noise && p.coin() {
			b.add(",")
		}
		b.add("]")
	case model.ORecord:
		b.add("{")
		for i, x := range a {
			if i > 0 {
				b.add(",")
			}
			b.add(p.key(e.Keys[i]), ":")
			p.operand(b, x, lvIf)
		}
		if len(a) > 0 && p.Noise && p.coin() {
			b.add(",")
		}
		b.add("}")
	case model.OExt:
		if isMethodExt(e) && len(a) > 0 {
			p.operand(b, a[0], lvMember)
			b.add(".", e.S)
			p.args(b, a[1:])
		} else {
			b.add(e.S)
			p.args(b, a)
		}
	}
}

func (p *Printer) scope(b *tokens, name string, s model.Scope) {
	b.add(name)
	ent := func(v model.Val) string { return v.T + "::" + model.QuoteString(v.ID) }
	switch s.Kind {
	case model.ScEq:
		b.add("==", ent(s.Ent))
	case model.ScIn:
		b.add("in", ent(s.Ent))
	case model.ScInSet:
		b.add("in", "[")
		for i, e := range s.Ents {
			if i > 0 {
				b.add(",")
			}
			b.add(ent(e))
		}
		b.add("]")
	case model.ScIs:
		b.add("is", s.Type)
	case model.ScIsIn:
		b.add("is", s.Type, "in", ent(s.Ent))
	}
}

func (p *Printer) policyTokens(pol *model.Policy) []string {
	b := &tokens{}
	for _, a := range pol.Annots {
		b.add("@"+a.Key, "(", model.QuoteString(a.Val), ")")
	}
	if pol.Permit {
		b.add("permit")
	} else {
		b.add("forbid")
	}
	b.add("(")
	p.scope(b, "principal", pol.P)
	b.add(",")
	p.scope(b, "action", pol.A)
	b.add(",")
	p.scope(b, "resource", pol.R)
	if p.Noise && p.coin() {
		b.add(",")
	}
	b.add(")")
	for _, c := range pol.Conds {
		if c.When {
			b.add("when")
		} else {
			b.add("unless")
		}
		b.add("{")
		p.operand(b, c.Body, lvIf)
		b.add("}")
	}
	b.add(";")
	return b.t
}

var noiseSeps = []string{" ", "  ", "\t", "\n", "\r\n", " // c\n", "\n// if then else \"\n", " \n\t ", "//\n"}

func (p *Printer) join(toks []string) string {
	var sb strings.Builder
	for i, t := range toks {
		if i > 0 {
			if p.Noise && p.R != nil {
				sb.WriteString(mon.Pick(p.R, noiseSeps))
			} else {
				prev := toks[i-1]
				tight := t == "," || t == ")" || t == "]" || t == ";" || t == "." || prev == "(" || prev == "[" || prev == "." || prev == "!" || prev == "-" && len(toks) > 0 && isUnaryPos(toks, i-1) || (t == "(" && isCallPos(prev)) || t == ":"
				if !tight {
					sb.WriteByte(' ')
				}
			}
		}
		sb.WriteString(t)
	}
	return sb.String()
}

func isCallPos(prev string) bool {
	if prev == "" {
		return false
	}
	c := prev[len(prev)-1]
	return (c >= 'a' && c <= 'z') || (c >= 'A' && c <= 'Z') || prev[0] == '@'
}

func isUnaryPos(toks []string, i int) bool {
	if i == 0 {
		return true
	}
	switch toks[i-1] {
	case "(", "[", "{", ",", ":", "!", "-", "+", "*", "==", "!=", "<", "<=", ">", ">=", "&&", "||", "in", "if", "then", "else", "when", "unless":
		return true
	}
	return false
}

func (p *Printer) Expr(e *model.Expr) string {
	b := &tokens{}
	p.operand(b, e, lvIf)
	return p.join(b.t)
}

func (p *Printer) Policy(pol *model.Policy) string { return p.join(p.policyTokens(pol)) }

// Canon is the deterministic minimal-parenthesis rendering used in witnesses.
func Canon(e *model.Expr) string { return (&Printer{}).Expr(e) }

func CanonPolicy(p *model.Policy) string { return (&Printer{}).Policy(p) }
