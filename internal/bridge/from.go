package bridge

import (
	"encoding/json"
	"fmt"
	"strings"

	"github.com/cedar-policy/cedar-go/types"
	"github.com/cedar-policy/cedar-go/x/exp/ast"

	"verif/internal/model"
)

// FromPattern recovers the components of a like-pattern through its public JSON encoding.
func FromPattern(p types.Pattern) ([]model.PatElem, error) {
	b, err := p.MarshalJSON()
	if err != nil {
		return nil, err
	}
	var raw []any
	if err := json.Unmarshal(b, &raw); err != nil {
		return nil, fmt.Errorf("pattern JSON %s: %w", b, err)
	}
	var out []model.PatElem
	for _, c := range raw {
		switch v := c.(type) {
		case string:
			if v != "Wildcard" {
				return nil, fmt.Errorf("pattern component %q", v)
			}
			out = append(out, model.PatElem{Wild: true})
		case map[string]any:
			s, ok := v["Literal"].(string)
			if !ok {
				return nil, fmt.Errorf("pattern component %v", v)
			}
			if s == "" {
				continue // an empty literal piece matches nothing more than its neighbours do
			}
			if len(out) == 0 {
				out = append(out, model.PatElem{Lit: s})
			} else {
				out[len(out)-1].Lit += s
			}
		default:
			return nil, fmt.Errorf("pattern component %v", c)
		}
	}
	return out, nil
}

// FromNode converts a cedar-go AST node into the model representation (structure preserving).
func FromNode(n ast.IsNode) (*model.Expr, error) {
	bin := func(op model.Op, b ast.BinaryNode) (*model.Expr, error) {
		l, err := FromNode(b.Left)
		if err != nil {
			return nil, err
		}
		r, err := FromNode(b.Right)
		if err != nil {
			return nil, err
		}
		return model.Bin(op, l, r), nil
	}
	un := func(op model.Op, a ast.IsNode) (*model.Expr, error) {
		x, err := FromNode(a)
		if err != nil {
			return nil, err
		}
		return model.Un(op, x), nil
	}
	switch v := n.(type) {
	case nil:
		return nil, fmt.Errorf("nil node")
	case ast.NodeValue:
		mv, err := FromValue(v.Value)
		if err != nil {
			return nil, err
		}
		return model.Lit(mv), nil
	case ast.NodeTypeVariable:
		return model.Var(string(v.Name)), nil
	case ast.NodeTypeAnd:
		return bin(model.OAnd, v.BinaryNode)
	case ast.NodeTypeOr:
		return bin(model.OOr, v.BinaryNode)
	case ast.NodeTypeNot:
		return un(model.ONot, v.Arg)
	case ast.NodeTypeNegate:
		return un(model.ONeg, v.Arg)
	case ast.NodeTypeIfThenElse:
		c, err := FromNode(v.If)
		if err != nil {
			return nil, err
		}
		t, err := FromNode(v.Then)
		if err != nil {
			return nil, err
		}
		e, err := FromNode(v.Else)
		if err != nil {
			return nil, err
		}
		return model.If(c, t, e), nil
	case ast.NodeTypeAdd:
		return bin(model.OAdd, v.BinaryNode)
	case ast.NodeTypeSub:
		return bin(model.OSub, v.BinaryNode)
	case ast.NodeTypeMult:
		return bin(model.OMul, v.BinaryNode)
	case ast.NodeTypeEquals:
		return bin(model.OEq, v.BinaryNode)
	case ast.NodeTypeNotEquals:
		return bin(model.ONe, v.BinaryNode)
	case ast.NodeTypeLessThan:
		return bin(model.OLt, v.BinaryNode)
	case ast.NodeTypeLessThanOrEqual:
		return bin(model.OLe, v.BinaryNode)
	case ast.NodeTypeGreaterThan:
		return bin(model.OGt, v.BinaryNode)
	case ast.NodeTypeGreaterThanOrEqual:
		return bin(model.OGe, v.BinaryNode)
	case ast.NodeTypeIn:
		return bin(model.OIn, v.BinaryNode)
	case ast.NodeTypeHasTag:
		return bin(model.OHasTag, v.BinaryNode)
	case ast.NodeTypeGetTag:
		return bin(model.OGetTag, v.BinaryNode)
	case ast.NodeTypeContains:
		return bin(model.OContains, v.BinaryNode)
	case ast.NodeTypeContainsAll:
		return bin(model.OContainsAll, v.BinaryNode)
	case ast.NodeTypeContainsAny:
		return bin(model.OContainsAny, v.BinaryNode)
	case ast.NodeTypeIsEmpty:
		return un(model.OIsEmpty, v.Arg)
	case ast.NodeTypeHas:
		a, err := FromNode(v.Arg)
		if err != nil {
			return nil, err
		}
		return model.Has(a, string(v.Value)), nil
	case ast.NodeTypeAccess:
		a, err := FromNode(v.Arg)
		if err != nil {
			return nil, err
		}
		return model.Access(a, string(v.Value)), nil
	case ast.NodeTypeLike:
		a, err := FromNode(v.Arg)
		if err != nil {
			return nil, err
		}
		p, err := FromPattern(v.Value)
		if err != nil {
			return nil, err
		}
		return model.Like(a, p), nil
	case ast.NodeTypeIs:
		a, err := FromNode(v.Left)
		if err != nil {
			return nil, err
		}
		return model.Is(a, string(v.EntityType)), nil
	case ast.NodeTypeIsIn:
		a, err := FromNode(v.Left)
		if err != nil {
			return nil, err
		}
		b, err := FromNode(v.Entity)
		if err != nil {
			return nil, err
		}
		return model.IsIn(a, string(v.EntityType), b), nil
	case ast.NodeTypeSet:
		args := make([]*model.Expr, len(v.Elements))
		for i, e := range v.Elements {
			x, err := FromNode(e)
			if err != nil {
				return nil, err
			}
			args[i] = x
		}
		return model.SetE(args...), nil
	case ast.NodeTypeRecord:
		keys := make([]string, len(v.Elements))
		args := make([]*model.Expr, len(v.Elements))
		for i, e := range v.Elements {
			x, err := FromNode(e.Value)
			if err != nil {
				return nil, err
			}
			keys[i] = string(e.Key)
			args[i] = x
		}
		return model.RecE(keys, args), nil
	case ast.NodeTypeExtensionCall:
		args := make([]*model.Expr, len(v.Args))
		for i, e := range v.Args {
			x, err := FromNode(e)
			if err != nil {
				return nil, err
			}
			args[i] = x
		}
		return model.Ext(string(v.Name), args...), nil
	}
	return nil, fmt.Errorf("unknown node type %T", n)
}

func fromScope(s ast.IsScopeNode) (model.Scope, error) {
	uid := func(e types.EntityUID) model.Val { return model.Ent(string(e.Type), string(e.ID)) }
	switch v := s.(type) {
	case ast.ScopeTypeAll:
		return model.Scope{Kind: model.ScAll}, nil
	case ast.ScopeTypeEq:
		return model.Scope{Kind: model.ScEq, Ent: uid(v.Entity)}, nil
	case ast.ScopeTypeIn:
		return model.Scope{Kind: model.ScIn, Ent: uid(v.Entity)}, nil
	case ast.ScopeTypeInSet:
		out := model.Scope{Kind: model.ScInSet}
		for _, e := range v.Entities {
			out.Ents = append(out.Ents, uid(e))
		}
		return out, nil
	case ast.ScopeTypeIs:
		return model.Scope{Kind: model.ScIs, Type: string(v.Type)}, nil
	case ast.ScopeTypeIsIn:
		return model.Scope{Kind: model.ScIsIn, Type: string(v.Type), Ent: uid(v.Entity)}, nil
	}
	return model.Scope{}, fmt.Errorf("unknown scope node %T", s)
}

// FromPolicy converts a cedar-go AST policy into the model representation.
func FromPolicy(p *ast.Policy) (*model.Policy, error) {
	out := &model.Policy{Permit: bool(p.Effect)}
	for _, a := range p.Annotations {
		out.Annots = append(out.Annots, model.Annot{Key: string(a.Key), Val: string(a.Value)})
	}
	var err error
	if out.P, err = fromScope(p.Principal); err != nil {
		return nil, err
	}
	if out.A, err = fromScope(p.Action); err != nil {
		return nil, err
	}
	if out.R, err = fromScope(p.Resource); err != nil {
		return nil, err
	}
	for _, c := range p.Conditions {
		b, err := FromNode(c.Body)
		if err != nil {
			return nil, err
		}
		out.Conds = append(out.Conds, model.Cond{When: bool(c.Condition), Body: b})
	}
	return out, nil
}

// SExpr is a canonical structural rendering of an expression (used for AST equality).
func SExpr(e *model.Expr) string {
	var sb strings.Builder
	sexpr(&sb, e)
	return sb.String()
}

func sexpr(sb *strings.Builder, e *model.Expr) {
	sb.WriteByte('(')
	sb.WriteString(e.Op.String())
	switch e.Op {
	case model.OLit:
		sb.WriteByte(' ')
		sb.WriteString(e.V.Key())
	case model.OVar, model.OHas, model.OAccess, model.OIs, model.OIsIn, model.OExt:
		fmt.Fprintf(sb, " %q", e.S)
	case model.OLike:
		for _, p := range e.Pat {
			fmt.Fprintf(sb, " [%v %q]", p.Wild, p.Lit)
		}
	}
	for i, a := range e.Args {
		sb.WriteByte(' ')
		if e.Op == model.ORecord {
			fmt.Fprintf(sb, "%q:", e.Keys[i])
		}
		sexpr(sb, a)
	}
	sb.WriteByte(')')
}

func scopeStr(s model.Scope) string {
	var es []string
	for _, e := range s.Ents {
		es = append(es, e.Key())
	}
	return fmt.Sprintf("%d/%s/%s/%v", s.Kind, s.Type, s.Ent.Key(), es)
}

// SPolicy is a canonical structural rendering of a policy (annotations in order).
func SPolicy(p *model.Policy) string {
	var sb strings.Builder
	fmt.Fprintf(&sb, "permit=%v", p.Permit)
	for _, a := range p.Annots {
		fmt.Fprintf(&sb, " @%q=%q", a.Key, a.Val)
	}
	fmt.Fprintf(&sb, " P=%s A=%s R=%s", scopeStr(p.P), scopeStr(p.A), scopeStr(p.R))
	for _, c := range p.Conds {
		fmt.Fprintf(&sb, " when=%v ", c.When)
		sexpr(&sb, c.Body)
	}
	return sb.String()
}
