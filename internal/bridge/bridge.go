// Package bridge converts between the harness's model representation and cedar-go's public
// types, using public constructors and accessors only.
package bridge

import (
	"fmt"
	"net/netip"
	"sort"

	cedar "github.com/cedar-policy/cedar-go"
	"github.com/cedar-policy/cedar-go/types"
	"github.com/cedar-policy/cedar-go/x/exp/ast"
	"github.com/cedar-policy/cedar-go/x/exp/eval"

	"verif/internal/model"
)

func ToIP(ip model.IPVal) types.IPAddr {
	var addr netip.Addr
	if ip.V6 {
		var b [16]byte
		for i := 0; i < 8; i++ {
			b[i] = byte(ip.Hi >> (56 - 8*i))
			b[8+i] = byte(ip.Lo >> (56 - 8*i))
		}
		addr = netip.AddrFrom16(b)
	} else {
		a := uint32(ip.Lo)
		addr = netip.AddrFrom4([4]byte{byte(a >> 24), byte(a >> 16), byte(a >> 8), byte(a)})
	}
	return types.IPAddr(netip.PrefixFrom(addr, ip.Prefix))
}

func FromIP(i types.IPAddr) (model.IPVal, error) {
	p := i.Prefix()
	a := p.Addr()
	var out model.IPVal
	if a.Zone() != "" {
		return out, fmt.Errorf("ip with zone %q", a.Zone())
	}
	switch {
	case a.Is4():
		b := a.As4()
		out.Lo = uint64(b[0])<<24 | uint64(b[1])<<16 | uint64(b[2])<<8 | uint64(b[3])
	case a.Is6():
		out.V6 = true
		b := a.As16()
		for k := 0; k < 8; k++ {
			out.Hi = out.Hi<<8 | uint64(b[k])
			out.Lo = out.Lo<<8 | uint64(b[8+k])
		}
	default:
		return out, fmt.Errorf("invalid ip address")
	}
	out.Prefix = p.Bits()
	if out.Prefix < 0 {
		return out, fmt.Errorf("invalid ip prefix")
	}
	return out, nil
}

func ToUID(v model.Val) types.EntityUID {
	return types.NewEntityUID(types.EntityType(v.T), types.String(v.ID))
}

func ToValue(v model.Val) types.Value {
	switch v.K {
	case model.KBool:
		return types.Boolean(v.B)
	case model.KLong:
		return types.Long(v.I)
	case model.KString:
		return types.String(v.S)
	case model.KEntity:
		return ToUID(v)
	case model.KSet:
		if len(v.Elems) == 0 {
			return types.NewSet()
		}
		xs := make([]types.Value, len(v.Elems))
		for i, e := range v.Elems {
			xs[i] = ToValue(e)
		}
		return types.NewSet(xs...)
	case model.KRecord:
		return ToRecord(v)
	case model.KDecimal:
		d, err := types.NewDecimal(v.I, -4)
		if err != nil {
			panic("bridge: NewDecimal(i,-4) failed: " + err.Error())
		}
		return d
	case model.KDatetime:
		return types.NewDatetimeFromMillis(v.I)
	case model.KDuration:
		return types.NewDurationFromMillis(v.I)
	case model.KIP:
		return ToIP(v.IP)
	}
	panic("bridge: bad kind")
}

func ToRecord(v model.Val) types.Record {
	m := make(types.RecordMap, len(v.Keys))
	for i, k := range v.Keys {
		m[types.String(k)] = ToValue(v.Vals[i])
	}
	return types.NewRecord(m)
}

func FromValue(v types.Value) (model.Val, error) {
	switch t := v.(type) {
	case types.Boolean:
		return model.Bool(bool(t)), nil
	case types.Long:
		return model.Long(int64(t)), nil
	case types.String:
		return model.Str(string(t)), nil
	case types.EntityUID:
		return model.Ent(string(t.Type), string(t.ID)), nil
	case types.Set:
		var xs []model.Val
		n := 0
		for e := range t.All() {
			n++
			x, err := FromValue(e)
			if err != nil {
				return model.Val{}, err
			}
			xs = append(xs, x)
		}
		s := model.Set(xs...)
		if len(s.Elems) != n || n != t.Len() {
			return s, fmt.Errorf("set iterates %d members, Len()=%d, %d distinct", n, t.Len(), len(s.Elems))
		}
		return s, nil
	case types.Record:
		var ks []string
		var vs []model.Val
		for k, e := range t.All() {
			x, err := FromValue(e)
			if err != nil {
				return model.Val{}, err
			}
			ks = append(ks, string(k))
			vs = append(vs, x)
		}
		return model.Record(ks, vs), nil
	case types.Decimal:
		return model.Decimal(decimalRaw(t)), nil
	case types.Datetime:
		return model.Datetime(t.Milliseconds()), nil
	case types.Duration:
		return model.Duration(t.ToMilliseconds()), nil
	case types.IPAddr:
		ip, err := FromIP(t)
		if err != nil {
			return model.Val{}, err
		}
		return model.IP(ip), nil
	case nil:
		return model.Val{}, fmt.Errorf("nil value")
	}
	return model.Val{}, fmt.Errorf("unknown value type %T", v)
}

// decimalRaw recovers the 1/10000 count of a Decimal without String/Parse: Compare against
// probes built with the exact constructor NewDecimal(i, -4) (binary search over int64).
func decimalRaw(d types.Decimal) int64 {
	// search in the order-preserving uint64 image of int64 (sign bit flipped)
	const flip = uint64(1) << 63
	lo, hi := uint64(0), ^uint64(0)
	for lo < hi {
		mid := lo + (hi-lo)/2
		p, err := types.NewDecimal(int64(mid^flip), -4)
		if err != nil {
			panic("bridge: NewDecimal(i,-4) failed: " + err.Error())
		}
		if d.Compare(p) <= 0 {
			hi = mid
		} else {
			lo = mid + 1
		}
	}
	return int64(lo ^ flip)
}

// Getter wraps an entity map, counts Get calls and enforces a logical step budget.
type Getter struct {
	M      types.EntityMap
	Calls  int
	Budget int // 0 = unlimited
	Hook   func()
}

type BudgetExceeded struct{ Calls int }

func (g *Getter) Get(uid types.EntityUID) (types.Entity, bool) {
	g.Calls++
	if g.Budget > 0 && g.Calls > g.Budget {
		panic(BudgetExceeded{g.Calls})
	}
	if g.Hook != nil {
		g.Hook()
	}
	e, ok := g.M[uid]
	return e, ok
}

func ToEntityMap(env *model.Env) types.EntityMap {
	m := types.EntityMap{}
	for _, e := range env.SortedStore() {
		ps := make([]types.EntityUID, len(e.Parents))
		for i, p := range e.Parents {
			ps[i] = ToUID(p)
		}
		uid := ToUID(e.UID)
		ent := types.Entity{UID: uid, Parents: types.NewEntityUIDSet(ps...)}
		if e.Attrs.K == model.KRecord {
			ent.Attributes = ToRecord(e.Attrs)
		}
		if e.Tags.K == model.KRecord {
			ent.Tags = ToRecord(e.Tags)
		}
		m[uid] = ent
	}
	return m
}

func ToEvalEnv(env *model.Env, g types.EntityGetter) eval.Env {
	return eval.Env{Entities: g, Principal: ToValue(env.P), Action: ToValue(env.A), Resource: ToValue(env.R), Context: ToValue(env.Ctx)}
}

func ToRequest(env *model.Env) cedar.Request {
	return cedar.Request{Principal: ToUID(env.P), Action: ToUID(env.A), Resource: ToUID(env.R), Context: ToRecord(env.Ctx)}
}

func ToPattern(p []model.PatElem) types.Pattern {
	var comps []any
	for _, e := range p {
		if e.Wild {
			comps = append(comps, types.Wildcard{})
		}
		if e.Lit != "" {
			comps = append(comps, types.String(e.Lit))
		}
	}
	return types.NewPattern(comps...)
}

func bn(a, b *model.Expr) ast.BinaryNode { return ast.BinaryNode{Left: ToNode(a), Right: ToNode(b)} }

// ToNode builds the x/exp/ast tree directly from struct literals (no builder logic involved).
func ToNode(e *model.Expr) ast.IsNode {
	a := e.Args
	switch e.Op {
	case model.OLit:
		return ast.NodeValue{Value: ToValue(e.V)}
	case model.OVar:
		return ast.NodeTypeVariable{Name: types.String(e.S)}
	case model.OAnd:
		return ast.NodeTypeAnd{BinaryNode: bn(a[0], a[1])}
	case model.OOr:
		return ast.NodeTypeOr{BinaryNode: bn(a[0], a[1])}
	case model.ONot:
		return ast.NodeTypeNot{UnaryNode: ast.UnaryNode{Arg: ToNode(a[0])}}
	case model.ONeg:
		return ast.NodeTypeNegate{UnaryNode: ast.UnaryNode{Arg: ToNode(a[0])}}
	case model.OIf:
		return ast.NodeTypeIfThenElse{If: ToNode(a[0]), Then: ToNode(a[1]), Else: ToNode(a[2])}
	case model.OAdd:
		return ast.NodeTypeAdd{BinaryNode: bn(a[0], a[1])}
	case model.OSub:
		return ast.NodeTypeSub{BinaryNode: bn(a[0], a[1])}
	case model.OMul:
		return ast.NodeTypeMult{BinaryNode: bn(a[0], a[1])}
	case model.OEq:
		return ast.NodeTypeEquals{BinaryNode: bn(a[0], a[1])}
	case model.ONe:
		return ast.NodeTypeNotEquals{BinaryNode: bn(a[0], a[1])}
	case model.OLt:
		return ast.NodeTypeLessThan{BinaryNode: bn(a[0], a[1])}
	case model.OLe:
		return ast.NodeTypeLessThanOrEqual{BinaryNode: bn(a[0], a[1])}
	case model.OGt:
		return ast.NodeTypeGreaterThan{BinaryNode: bn(a[0], a[1])}
	case model.OGe:
		return ast.NodeTypeGreaterThanOrEqual{BinaryNode: bn(a[0], a[1])}
	case model.OIn:
		return ast.NodeTypeIn{BinaryNode: bn(a[0], a[1])}
	case model.OHas:
		return ast.NodeTypeHas{StrOpNode: ast.StrOpNode{Arg: ToNode(a[0]), Value: types.String(e.S)}}
	case model.OAccess:
		return ast.NodeTypeAccess{StrOpNode: ast.StrOpNode{Arg: ToNode(a[0]), Value: types.String(e.S)}}
	case model.OHasTag:
		return ast.NodeTypeHasTag{BinaryNode: bn(a[0], a[1])}
	case model.OGetTag:
		return ast.NodeTypeGetTag{BinaryNode: bn(a[0], a[1])}
	case model.OLike:
		return ast.NodeTypeLike{Arg: ToNode(a[0]), Value: ToPattern(e.Pat)}
	case model.OIs:
		return ast.NodeTypeIs{Left: ToNode(a[0]), EntityType: types.EntityType(e.S)}
	case model.OIsIn:
		return ast.NodeTypeIsIn{NodeTypeIs: ast.NodeTypeIs{Left: ToNode(a[0]), EntityType: types.EntityType(e.S)}, Entity: ToNode(a[1])}
	case model.OContains:
		return ast.NodeTypeContains{BinaryNode: bn(a[0], a[1])}
	case model.OContainsAll:
		return ast.NodeTypeContainsAll{BinaryNode: bn(a[0], a[1])}
	case model.OContainsAny:
		return ast.NodeTypeContainsAny{BinaryNode: bn(a[0], a[1])}
	case model.OIsEmpty:
		return ast.NodeTypeIsEmpty{UnaryNode: ast.UnaryNode{Arg: ToNode(a[0])}}
	case model.OSet:
		els := make([]ast.IsNode, len(a))
		for i, x := range a {
			els[i] = ToNode(x)
		}
		return ast.NodeTypeSet{Elements: els}
	case model.ORecord:
		els := make([]ast.RecordElementNode, len(a))
		for i, x := range a {
			els[i] = ast.RecordElementNode{Key: types.String(e.Keys[i]), Value: ToNode(x)}
		}
		return ast.NodeTypeRecord{Elements: els}
	case model.OExt:
		args := make([]ast.IsNode, len(a))
		for i, x := range a {
			args[i] = ToNode(x)
		}
		return ast.NodeTypeExtensionCall{Name: types.Path(e.S), Args: args}
	}
	panic("bridge: unknown op")
}

func toScopeP(s model.Scope) ast.IsPrincipalScopeNode {
	switch s.Kind {
	case model.ScEq:
		return ast.ScopeTypeEq{Entity: ToUID(s.Ent)}
	case model.ScIn:
		return ast.ScopeTypeIn{Entity: ToUID(s.Ent)}
	case model.ScIs:
		return ast.ScopeTypeIs{Type: types.EntityType(s.Type)}
	case model.ScIsIn:
		return ast.ScopeTypeIsIn{Type: types.EntityType(s.Type), Entity: ToUID(s.Ent)}
	}
	return ast.ScopeTypeAll{}
}

func toScopeA(s model.Scope) ast.IsActionScopeNode {
	switch s.Kind {
	case model.ScEq:
		return ast.ScopeTypeEq{Entity: ToUID(s.Ent)}
	case model.ScIn:
		return ast.ScopeTypeIn{Entity: ToUID(s.Ent)}
	case model.ScInSet:
		es := make([]types.EntityUID, len(s.Ents))
		for i, e := range s.Ents {
			es[i] = ToUID(e)
		}
		return ast.ScopeTypeInSet{Entities: es}
	}
	return ast.ScopeTypeAll{}
}

// ToPolicy builds the AST policy with struct literals.
func ToPolicy(p *model.Policy) *ast.Policy {
	out := &ast.Policy{Effect: ast.Effect(p.Permit), Principal: toScopeP(p.P), Action: toScopeA(p.A),
		Resource: toScopeP(p.R).(ast.IsResourceScopeNode)}
	for _, a := range p.Annots {
		out.Annotations = append(out.Annotations, ast.AnnotationType{Key: types.Ident(a.Key), Value: types.String(a.Val)})
	}
	for _, c := range p.Conds {
		out.Conditions = append(out.Conditions, ast.ConditionType{Condition: ast.Condition(c.When), Body: ToNode(c.Body)})
	}
	return out
}

// Diag normalises a cedar Diagnostic: sorted reason ids, sorted error ids.
func Diag(d cedar.Diagnostic) (reasons, errs []string) {
	for _, r := range d.Reasons {
		reasons = append(reasons, string(r.PolicyID))
	}
	for _, e := range d.Errors {
		errs = append(errs, string(e.PolicyID))
	}
	sort.Strings(reasons)
	sort.Strings(errs)
	return
}
