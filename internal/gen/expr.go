package gen

import (
	"fmt"
	"math"

	"verif/internal/model"
	"verif/internal/mon"
)

// ExprCfg tunes the expression generator.
type ExprCfg struct {
	PIll      float64 // probability that an operand is generated with a random (likely wrong) kind
	PrimLits  bool    // only literals expressible as Cedar primaries (bool, long, string, entity); others become constructor calls / set / record nodes
	NoVars    bool    // closed expressions only
	ExtraAttr []string
	SafeDT        bool // never spell datetime literals below cedar-go's (known, recorded) lower parsing bound
	WellFormedExt bool // no unknown functions / wrong arities (texts must stay inside the grammar)
	NoBadLits     bool // constructor strings are always well formed
}

// DatetimeLowBound is -292275055-05-17T16:47:04.192Z, the smallest datetime cedar-go parses.
const DatetimeLowBound = -9223372036768375808

var DefaultCfg = ExprCfg{PIll: 0.06}

type G struct {
	R   *R
	Cfg ExprCfg
}

func (g *G) kindOr(k model.Kind) model.Kind {
	if g.R.P(g.Cfg.PIll) {
		return RandKind(g.R)
	}
	return k
}

func (g *G) attr() string {
	if len(g.Cfg.ExtraAttr) > 0 && g.R.P(0.3) {
		return mon.Pick(g.R, g.Cfg.ExtraAttr)
	}
	return mon.Pick(g.R, AttrNames)
}

// DatetimeText renders ms in one of the accepted spellings (random form).
func DatetimeText(r *R, ms int64) string {
	s := model.PrintDatetime(ms)
	switch r.Intn(5) {
	case 0:
		if ms%Day == 0 {
			return s[:len(s)-len("T00:00:00.000Z")]
		}
	case 1:
		if ms%1000 == 0 {
			return s[:len(s)-5] + "Z"
		}
	case 2:
		// shift by an offset: print (ms+off) with "+hhmm"
		oh, om := int64(r.Intn(24)), int64(r.Intn(60))
		off := oh*3600000 + om*60000
		sign := "+"
		sh := ms + off
		if r.Bool() {
			sign = "-"
			sh = ms - off
		}
		if (sign == "+" && sh < ms) || (sign == "-" && sh > ms) {
			return s // shifted value not representable
		}
		t := model.PrintDatetime(sh)
		return t[:len(t)-1] + fmt.Sprintf("%s%02d%02d", sign, oh, om)
	}
	return s
}

func DecimalText(r *R, v int64) string {
	n := 1 + r.Intn(4)
	if s, ok := model.PrintDecimalDigits(v, n); ok {
		return s
	}
	return model.PrintDecimal(v)
}

var badLiterals = []string{"", "1", "1.", ".5", "1.23456", "+1.0", "1e3", "--1.0", "1.0.0", " 1.0", "1.0 ", "0x1.0", "１.０",
	"1d1d", "1h1d", "1", "ms", "-", "1 d", "1D", "1.5s", "+1s", "9223372036854775808ms", "106751991168d",
	"2020-13-01", "2020-02-30", "2021-02-29", "2020-1-01", "20200101", "2020-01-01T", "2020-01-01T00:00:00", "2020-01-01T24:00:00Z", "2020-01-01T00:60:00Z",
	"2020-01-01T00:00:60Z", "2020-01-01T00:00:00.0Z", "2020-01-01T00:00:00.0000Z", "2020-01-01T00:00:00+2400", "2020-01-01T00:00:00+0060", "2020-01-01T00:00:00+00:00", "2020-01-01 00:00:00Z", "2020-01-01t00:00:00z",
	"2024-03-00", "2024-00-10", "2024-00-00", "0000-00-00", "2024-01-32", "2024-04-31", "2024-+1-01", "2024-01-01T+1:00:00Z", "2024-01-01T00:00:00.+12Z", "2024-01-01T00:00:00.5Z", "2024-01-01T00:00:00,123Z",
	"-0d", "+0.0", "0.-5", "1.+5", "::1.2.3.4", "1::1.2.3.4", "00.0.0.1", "1.2.3.04",
	"256.0.0.1", "1.2.3", "1.2.3.4/33", "1.2.3.4/", "::1/129", ":::", "1.2.3.4.5", "g::1", "1.2.3.4/-1", "fe80::1%eth0"}

func (g *G) extLit(fn string, v model.Val) *model.Expr {
	r := g.R
	var s string
	if g.Cfg.SafeDT && fn == "datetime" && v.I < DatetimeLowBound {
		v.I = DatetimeLowBound + (v.I - math.MinInt64)
	}
	if !g.Cfg.NoBadLits && r.P(0.12) {
		s = mon.Pick(r, badLiterals)
	} else {
		switch fn {
		case "decimal":
			s = DecimalText(r, v.I)
		case "datetime":
			s = DatetimeText(r, v.I)
		case "duration":
			s = model.PrintDuration(v.I)
		case "ip":
			s = model.PrintIP(v.IP)
		}
	}
	return model.Ext(fn, model.Lit(model.Str(s)))
}

var extCtor = map[model.Kind]string{model.KDecimal: "decimal", model.KDatetime: "datetime", model.KDuration: "duration", model.KIP: "ip"}

// LitExpr makes a literal expression of the value, honouring PrimLits.
func (g *G) LitExpr(v model.Val) *model.Expr {
	if !g.Cfg.PrimLits {
		if fn, ok := extCtor[v.K]; ok && g.R.P(0.5) {
			return g.extLit(fn, v)
		}
		return model.Lit(v)
	}
	switch v.K {
	case model.KSet:
		args := make([]*model.Expr, len(v.Elems))
		for i, e := range v.Elems {
			args[i] = g.LitExpr(e)
		}
		return model.SetE(args...)
	case model.KRecord:
		args := make([]*model.Expr, len(v.Vals))
		for i, e := range v.Vals {
			args[i] = g.LitExpr(e)
		}
		return model.RecE(append([]string{}, v.Keys...), args)
	case model.KDecimal, model.KDatetime, model.KDuration, model.KIP:
		return g.extLit(extCtor[v.K], v)
	}
	return model.Lit(v)
}

func (g *G) leaf(k model.Kind) *model.Expr {
	r := g.R
	if !g.Cfg.NoVars {
		switch k {
		case model.KEntity:
			if r.P(0.5) {
				return model.Var(mon.Pick(r, []string{"principal", "action", "resource"}))
			}
		case model.KRecord:
			if r.P(0.5) {
				return model.Var("context")
			}
		default:
			if r.P(0.2) {
				base := model.Var(mon.Pick(r, []string{"principal", "resource", "context"}))
				return model.Access(base, g.attr())
			}
		}
	}
	return g.LitExpr(RandValOf(r, k, 1))
}

func (g *G) Any(depth int) *model.Expr { return g.Expr(depth, RandKind(g.R)) }

// Expr generates an expression that (if well typed) evaluates to kind k.
func (g *G) Expr(depth int, k model.Kind) *model.Expr {
	r := g.R
	if depth <= 0 || r.P(0.12) {
		return g.leaf(k)
	}
	d := depth - 1
	// generic producers available for every kind
	switch r.Intn(12) {
	case 0:
		return model.If(g.Expr(d, g.kindOr(model.KBool)), g.Expr(d, k), g.Expr(d, g.kindOr(k)))
	case 1:
		if !g.Cfg.NoVars || r.P(0.3) {
			base := g.Expr(d, g.kindOr(mon.Pick(r, []model.Kind{model.KEntity, model.KRecord})))
			return model.Access(base, g.attr())
		}
	case 2:
		if r.P(0.3) {
			return model.Bin(model.OGetTag, g.Expr(d, g.kindOr(model.KEntity)), g.Expr(d, g.kindOr(model.KString)))
		}
		// record literal containing the wanted kind, then accessed
		keys := []string{g.attr()}
		rec := model.RecE(keys, []*model.Expr{g.Expr(d, k)})
		return model.Access(rec, keys[0])
	}
	switch k {
	case model.KBool:
		switch r.Intn(22) {
		case 0, 1:
			return model.Bin(model.OAnd, g.Expr(d, g.kindOr(model.KBool)), g.Expr(d, g.kindOr(model.KBool)))
		case 2, 3:
			return model.Bin(model.OOr, g.Expr(d, g.kindOr(model.KBool)), g.Expr(d, g.kindOr(model.KBool)))
		case 4:
			return model.Un(model.ONot, g.Expr(d, g.kindOr(model.KBool)))
		case 5, 6:
			kk := RandKind(r)
			op := model.OEq
			if r.Bool() {
				op = model.ONe
			}
			return model.Bin(op, g.Expr(d, kk), g.Expr(d, g.kindOr(kk)))
		case 7, 8:
			kk := mon.Pick(r, []model.Kind{model.KLong, model.KLong, model.KDatetime, model.KDuration})
			op := mon.Pick(r, []model.Op{model.OLt, model.OLe, model.OGt, model.OGe})
			return model.Bin(op, g.Expr(d, g.kindOr(kk)), g.Expr(d, g.kindOr(kk)))
		case 9, 10:
			rk := model.KEntity
			if r.Bool() {
				rk = model.KSet
			}
			var rhs *model.Expr
			if rk == model.KSet {
				n := r.Intn(3)
				args := make([]*model.Expr, n)
				for i := range args {
					args[i] = g.Expr(d, g.kindOr(model.KEntity))
				}
				rhs = model.SetE(args...)
			} else {
				rhs = g.Expr(d, g.kindOr(rk))
			}
			return model.Bin(model.OIn, g.Expr(d, g.kindOr(model.KEntity)), rhs)
		case 11:
			return model.Has(g.Expr(d, g.kindOr(mon.Pick(r, []model.Kind{model.KEntity, model.KRecord}))), g.attr())
		case 12:
			return model.Bin(model.OHasTag, g.Expr(d, g.kindOr(model.KEntity)), g.Expr(d, g.kindOr(model.KString)))
		case 13:
			return model.Like(g.Expr(d, g.kindOr(model.KString)), RandPattern(r))
		case 14:
			if r.Bool() {
				return model.Is(g.Expr(d, g.kindOr(model.KEntity)), mon.Pick(r, EntityTypes))
			}
			return model.IsIn(g.Expr(d, g.kindOr(model.KEntity)), mon.Pick(r, EntityTypes), g.Expr(d, g.kindOr(mon.Pick(r, []model.Kind{model.KEntity, model.KSet}))))
		case 15:
			return model.Bin(model.OContains, g.Expr(d, g.kindOr(model.KSet)), g.Any(d))
		case 16:
			op := model.OContainsAll
			if r.Bool() {
				op = model.OContainsAny
			}
			return model.Bin(op, g.Expr(d, g.kindOr(model.KSet)), g.Expr(d, g.kindOr(model.KSet)))
		case 17:
			return model.Un(model.OIsEmpty, g.Expr(d, g.kindOr(model.KSet)))
		case 18:
			fn := mon.Pick(r, []string{"lessThan", "lessThanOrEqual", "greaterThan", "greaterThanOrEqual"})
			return model.Ext(fn, g.Expr(d, g.kindOr(model.KDecimal)), g.Expr(d, g.kindOr(model.KDecimal)))
		case 19:
			fn := mon.Pick(r, []string{"isIpv4", "isIpv6", "isLoopback", "isMulticast"})
			return model.Ext(fn, g.Expr(d, g.kindOr(model.KIP)))
		case 20:
			return model.Ext("isInRange", g.Expr(d, g.kindOr(model.KIP)), g.Expr(d, g.kindOr(model.KIP)))
		default:
			return g.leaf(k)
		}
	case model.KLong:
		switch r.Intn(8) {
		case 0, 1:
			return model.Bin(model.OAdd, g.Expr(d, g.kindOr(model.KLong)), g.Expr(d, g.kindOr(model.KLong)))
		case 2:
			return model.Bin(model.OSub, g.Expr(d, g.kindOr(model.KLong)), g.Expr(d, g.kindOr(model.KLong)))
		case 3, 4:
			return model.Bin(model.OMul, g.Expr(d, g.kindOr(model.KLong)), g.Expr(d, g.kindOr(model.KLong)))
		case 5:
			return model.Un(model.ONeg, g.Expr(d, g.kindOr(model.KLong)))
		case 6:
			fn := mon.Pick(r, []string{"toDays", "toHours", "toMinutes", "toSeconds", "toMilliseconds"})
			return model.Ext(fn, g.Expr(d, g.kindOr(model.KDuration)))
		default:
			return g.leaf(k)
		}
	case model.KSet:
		n := r.Intn(4)
		args := make([]*model.Expr, n)
		ek := RandKind(r)
		for i := range args {
			args[i] = g.Expr(d, g.kindOr(ek))
		}
		return model.SetE(args...)
	case model.KRecord:
		n := r.Intn(4)
		seen := map[string]bool{}
		var keys []string
		var args []*model.Expr
		for i := 0; i < n; i++ {
			key := g.attr()
			if seen[key] {
				continue
			}
			seen[key] = true
			keys = append(keys, key)
			args = append(args, g.Any(d))
		}
		return model.RecE(keys, args)
	case model.KDatetime:
		switch r.Intn(5) {
		case 0:
			return model.Ext("toDate", g.Expr(d, g.kindOr(model.KDatetime)))
		case 1, 2:
			return model.Ext("offset", g.Expr(d, g.kindOr(model.KDatetime)), g.Expr(d, g.kindOr(model.KDuration)))
		default:
			return g.leaf(k)
		}
	case model.KDuration:
		switch r.Intn(5) {
		case 0:
			return model.Ext("toTime", g.Expr(d, g.kindOr(model.KDatetime)))
		case 1, 2:
			return model.Ext("durationSince", g.Expr(d, g.kindOr(model.KDatetime)), g.Expr(d, g.kindOr(model.KDatetime)))
		default:
			return g.leaf(k)
		}
	case model.KDecimal, model.KIP:
		if r.P(0.15) {
			// constructor applied to a non-literal / ill-typed argument
			return model.Ext(extCtor[k], g.Expr(d, g.kindOr(model.KString)))
		}
		if !g.Cfg.WellFormedExt && r.P(0.05) {
			// arity / unknown function
			switch r.Intn(3) {
			case 0:
				return model.Ext(extCtor[k])
			case 1:
				return model.Ext(extCtor[k], g.leaf(model.KString), g.leaf(model.KString))
			default:
				return model.Ext("nosuchfn", g.leaf(model.KString))
			}
		}
		return g.leaf(k)
	}
	return g.leaf(k)
}

func RandPattern(r *R) []model.PatElem {
	n := r.Intn(5)
	var out []model.PatElem
	for i := 0; i < n; i++ {
		switch r.Intn(3) {
		case 0:
			out = append(out, model.PatElem{Wild: true})
		case 1:
			out = append(out, model.PatElem{Lit: mon.Pick(r, []string{"a", "b", "ab", "*", "\\", "q\"", "é", "abc", "\n", "a b"})})
		default:
			out = append(out, model.PatElem{Lit: RandString(r)})
		}
	}
	return NormPattern(out)
}

// NormPattern merges adjacent literals / wildcards so that the pattern is in the canonical
// component form (wildcard followed by an optional literal).
func NormPattern(in []model.PatElem) []model.PatElem {
	var out []model.PatElem
	for _, e := range in {
		if e.Wild {
			if len(out) > 0 && out[len(out)-1].Wild && out[len(out)-1].Lit == "" {
				if e.Lit != "" {
					out[len(out)-1].Lit = e.Lit
				}
				continue
			}
			out = append(out, e)
			continue
		}
		if e.Lit == "" {
			continue
		}
		if len(out) == 0 {
			out = append(out, model.PatElem{Lit: e.Lit})
		} else {
			out[len(out)-1].Lit += e.Lit
		}
	}
	return out
}

func BadLiterals() []string { return badLiterals }

var annotKeys = []string{"id", "a", "b", "advice", "if", "principal", "_x", "A1"}

func RandScope(r *R, which int) model.Scope {
	// which: 0 principal, 1 action, 2 resource
	switch r.Intn(6) {
	case 0:
		return model.Scope{Kind: model.ScEq, Ent: RandUID(r)}
	case 1:
		return model.Scope{Kind: model.ScIn, Ent: RandUID(r)}
	case 2:
		if which == 1 {
			n := r.Intn(4)
			s := model.Scope{Kind: model.ScInSet}
			for i := 0; i < n; i++ {
				s.Ents = append(s.Ents, RandUID(r))
			}
			return s
		}
		return model.Scope{Kind: model.ScIs, Type: mon.Pick(r, EntityTypes)}
	case 3:
		if which != 1 {
			return model.Scope{Kind: model.ScIsIn, Type: mon.Pick(r, EntityTypes), Ent: RandUID(r)}
		}
	}
	return model.Scope{Kind: model.ScAll}
}

// RandPolicy draws a policy: effect x scope forms x when/unless lists x annotations.
func RandPolicy(r *R, cfg ExprCfg, depth int) *model.Policy {
	p := &model.Policy{Permit: r.Bool(), P: RandScope(r, 0), A: RandScope(r, 1), R: RandScope(r, 2)}
	if p.A.Kind == model.ScEq || p.A.Kind == model.ScIn {
		if r.P(0.7) {
			p.A.Ent = model.Ent("Action", mon.Pick(r, []string{"a", "b", "view", "grp"}))
		}
	}
	na := r.Intn(3)
	seen := map[string]bool{}
	for i := 0; i < na; i++ {
		k := mon.Pick(r, annotKeys)
		if seen[k] {
			continue
		}
		seen[k] = true
		p.Annots = append(p.Annots, model.Annot{Key: k, Val: RandString(r)})
	}
	g := &G{R: r, Cfg: cfg}
	nc := r.Intn(3)
	for i := 0; i < nc; i++ {
		k := model.KBool
		if r.P(cfg.PIll) {
			k = RandKind(r)
		}
		p.Conds = append(p.Conds, model.Cond{When: r.P(0.7), Body: g.Expr(1+r.Intn(depth), k)})
	}
	return p
}
