package gen

import (
	"verif/internal/model"
	"verif/internal/mon"
)

// Mentions collects the entity literals, attribute names and string literals of expressions
// (used to build environments that reach both branches of store-dependent sub-terms).
type Mentions struct {
	Ents  []model.Val
	Attrs []string
	Strs  []string
	Vals  []model.Val
}

func collectVal(m *Mentions, v model.Val) {
	switch v.K {
	case model.KEntity:
		m.Ents = append(m.Ents, v)
	case model.KString:
		m.Strs = append(m.Strs, v.S)
	case model.KSet:
		for _, e := range v.Elems {
			collectVal(m, e)
		}
	case model.KRecord:
		for i, e := range v.Vals {
			m.Attrs = append(m.Attrs, v.Keys[i])
			collectVal(m, e)
		}
	}
	if len(m.Vals) < 64 {
		m.Vals = append(m.Vals, v)
	}
}

func Collect(m *Mentions, e *model.Expr) {
	e.Walk(func(x *model.Expr) {
		switch x.Op {
		case model.OLit:
			collectVal(m, x.V)
		case model.OHas, model.OAccess:
			m.Attrs = append(m.Attrs, x.S)
		case model.ORecord:
			m.Attrs = append(m.Attrs, x.Keys...)
		}
	})
}

func CollectPolicy(m *Mentions, p *model.Policy) {
	for _, s := range []model.Scope{p.P, p.A, p.R} {
		if s.Kind == model.ScEq || s.Kind == model.ScIn || s.Kind == model.ScIsIn {
			m.Ents = append(m.Ents, s.Ent)
		}
		m.Ents = append(m.Ents, s.Ents...)
	}
	for _, c := range p.Conds {
		Collect(m, c.Body)
	}
}

func (m *Mentions) pickEnt(r *R) model.Val {
	if len(m.Ents) > 0 && r.P(0.75) {
		return mon.Pick(r, m.Ents)
	}
	return RandUID(r)
}

func (m *Mentions) pickVal(r *R, depth int) model.Val {
	if len(m.Vals) > 0 && r.P(0.4) {
		v := mon.Pick(r, m.Vals)
		if r.P(0.3) && (v.K == model.KLong || v.K == model.KDecimal || v.K == model.KDatetime || v.K == model.KDuration) {
			v.I += int64(r.Intn(3)) - 1
		}
		return v
	}
	if len(m.Ents) > 0 && r.P(0.2) {
		return mon.Pick(r, m.Ents)
	}
	return RandVal(r, depth)
}

func (m *Mentions) record(r *R, depth int) model.Val {
	n := r.Intn(4)
	var ks []string
	var vs []model.Val
	for i := 0; i < n; i++ {
		if len(m.Attrs) > 0 && r.P(0.7) {
			ks = append(ks, mon.Pick(r, m.Attrs))
		} else {
			ks = append(ks, mon.Pick(r, AttrNames))
		}
		vs = append(vs, m.pickVal(r, depth))
	}
	return model.Record(ks, vs)
}

func (m *Mentions) tags(r *R) model.Val {
	n := r.Intn(3)
	var ks []string
	var vs []model.Val
	for i := 0; i < n; i++ {
		if len(m.Strs) > 0 && r.P(0.7) {
			ks = append(ks, mon.Pick(r, m.Strs))
		} else {
			ks = append(ks, RandString(r))
		}
		vs = append(vs, m.pickVal(r, 1))
	}
	return model.Record(ks, vs)
}

// EnvFor builds an environment biased to what the expressions mention: mentioned entities
// exist (or not) with mentioned attributes / tags and parents among the mentioned entities.
// emptyStore forces the empty store (the situation the constant folder evaluates in).
func EnvFor(r *R, m *Mentions, emptyStore bool) *model.Env {
	env := &model.Env{Store: map[string]*model.Entity{}}
	env.P, env.A, env.R = m.pickEnt(r), m.pickEnt(r), m.pickEnt(r)
	if r.P(0.5) {
		env.A = model.Ent("Action", mon.Pick(r, []string{"a", "b", "view"}))
	}
	env.Ctx = m.record(r, 2)
	if emptyStore {
		return env
	}
	cands := append([]model.Val{env.P, env.A, env.R}, m.Ents...)
	for _, u := range cands {
		if r.P(0.3) {
			continue
		}
		e := &model.Entity{UID: u, Attrs: m.record(r, 2), Tags: m.tags(r)}
		np := r.Intn(3)
		for j := 0; j < np; j++ {
			e.Parents = append(e.Parents, mon.Pick(r, cands))
		}
		e.Parents = model.Set(e.Parents...).Elems
		env.Store[u.Key()] = e
	}
	extra := r.Intn(3)
	for i := 0; i < extra; i++ {
		u := RandUID(r)
		env.Store[u.Key()] = &model.Entity{UID: u, Attrs: m.record(r, 1), Tags: m.tags(r), Parents: model.Set(m.pickEnt(r)).Elems}
	}
	return env
}

// PickVal exposes the biased value choice (a literal of the policy, a neighbour, or random).
func (m *Mentions) PickVal(r *R) model.Val { return m.pickVal(r, 1) }

// PickEnt exposes the biased entity choice.
func (m *Mentions) PickEnt(r *R) model.Val { return m.pickEnt(r) }
