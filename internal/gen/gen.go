// Package gen holds the seeded generators: the boundary-value universe, random values,
// entity stores, environments, expressions and policies (all in model representation).
package gen

import (
	"math"

	"verif/internal/model"
	"verif/internal/mon"
)

type R = mon.Rand

var Longs = []int64{0, 1, -1, 2, -2, 3, 7, 10, 255, 86400000, -86400000, 999999999, 1000000001,
	4294967296, -4294967297, 3037000499, 3037000500, -3037000500, 4611686018427387904, -4611686018427387904,
	math.MaxInt64, math.MaxInt64 - 1, math.MinInt64, math.MinInt64 + 1}

var Strings = []string{"", "a", "b", "abc", "ab*c", "*", "**", "a b", "A", "if", "true", "principal", "has",
	"q\"t", "back\\slash", "tab\t", "nl\n", "cr\r", "nul\x00", "bell\a", "del\x7f", "esc\x1b[0m", "nbsp\u00a0x",
	"\u00e9", "\u0301lead", "e\u0301", "\ufffd", "a\ufffdb", "emoji\U0001F600", "\U0001D4B3", "\u65e5\u672c\u8a9e", "'", " ", "\u200b", "\u202e", "x.y", "__cedar", "0", "-1",
	"\u0085", "\u2028", "\ufeff", "\U000E0001", "\U0010FFFF", "\ud7ff", "\ue000",
	"ends in backslash\\", "\\", "ends in quote\"", "C:\\dir\\", "010", "in", "__cedarx", "x__cedar",
	"\\u003c", "a\\u0026b\\u003e", "<>&", "\u2028\\u2028", "</script>"}

var EntityTypes = []string{"U", "G", "NS::T", "Action", "A::B::C", "A::B", "A"}
var EntityIDs = []string{"a", "b", "c", "d", "", "x y", "q\"t", "\u00e9", "\x00", "nl\n", "dir\\", "C::a", "B::C::a"}

var AttrNames = []string{"a", "b", "n", "s", "e", "set", "rec", "if", "in", "has space", "", "\u00e9", "q\"t", "__x"}

var Decimals = []int64{0, 1, -1, 10000, -10000, 5000, -5000, 12345, -12345, 100, 10, 9999, -9999,
	math.MaxInt64, math.MinInt64, math.MaxInt64 - 1, math.MinInt64 + 1, 9223372036854770000, -9223372036854770000}

const Day = 86400000

var Datetimes = []int64{0, 1, -1, Day - 1, Day, Day + 1, -(Day - 1), -Day, -(Day + 1), 1700000000000, -1700000000000,
	-62167219200000, -62167219200001, 253402300799999, 253402300800000, // year 0000 start, year -1 end, 9999 end, 10000 start
	951782400000, 951868799999, -2203891200000, 4107542400000, // 2000-02-29, 1900-03-01, 2100-03-01
	math.MaxInt64, math.MaxInt64 - 1, math.MinInt64, math.MinInt64 + 1,
	math.MaxInt64 - math.MaxInt64%Day, math.MaxInt64 - math.MaxInt64%Day - 1,
	math.MinInt64 - math.MinInt64%Day, math.MinInt64 - math.MinInt64%Day + Day, math.MinInt64 - math.MinInt64%Day + Day - 1}

var Durations = []int64{0, 1, -1, 999, 1000, 1001, -999, -1000, -1001, 59999, 60000, 60001, -60000, 3599999, 3600000, -3600000,
	Day - 1, Day, Day + 1, -Day, -(Day + 1), -(Day - 1), 90061001, -90061001, math.MaxInt64, math.MinInt64, math.MaxInt64 - 1, math.MinInt64 + 1}

func ip4(a, b, c, d uint32, p int) model.Val { return model.IP4(a<<24|b<<16|c<<8|d, p) }
func ip6(hi, lo uint64, p int) model.Val {
	return model.IP(model.IPVal{V6: true, Hi: hi, Lo: lo, Prefix: p})
}

var IPs = []model.Val{
	ip4(127, 0, 0, 1, 32), ip4(127, 0, 0, 1, 8), ip4(127, 0, 0, 0, 8), ip4(127, 255, 255, 255, 7), ip4(126, 0, 0, 1, 32), ip4(128, 0, 0, 1, 1),
	ip4(10, 0, 0, 1, 32), ip4(10, 0, 0, 0, 8), ip4(10, 1, 2, 3, 16), ip4(10, 1, 2, 3, 24), ip4(0, 0, 0, 0, 0), ip4(255, 255, 255, 255, 32),
	ip4(224, 0, 0, 1, 32), ip4(224, 0, 0, 0, 4), ip4(224, 0, 0, 0, 3), ip4(239, 255, 255, 255, 32), ip4(240, 0, 0, 0, 4), ip4(225, 1, 2, 3, 5),
	ip4(192, 168, 1, 1, 31), ip4(192, 168, 1, 0, 31), ip4(1, 2, 3, 4, 0),
	ip6(0, 1, 128), ip6(0, 1, 127), ip6(0, 0, 128), ip6(0, 0, 0), ip6(0, 2, 128), ip6(0, 1, 0),
	ip6(0xff00<<48, 0, 8), ip6(0xff02<<48, 1, 128), ip6(0xff00<<48, 0, 7), ip6(0xfe80<<48, 1, 64), ip6(0xfe80<<48, 1, 128),
	ip6(0x20010db8<<32, 0, 32), ip6(0x20010db8<<32, 1, 128), ip6(0x20010db8<<32|1, 0, 64), ip6(^uint64(0), ^uint64(0), 128), ip6(0, 0x7f000001, 128), ip6(0, 0xffff7f000001, 128),
}

// Collide is the universe whose members collide in cedar-go's value hash (all hash to 1 or
// to neighbouring slots) plus sets/records of them.
func Collide() []model.Val {
	one := []model.Val{model.Bool(true), model.Long(1), model.Decimal(1), model.Duration(1), model.Datetime(1)}
	out := append([]model.Val{}, one...)
	out = append(out, model.Long(2), model.Long(0), model.Bool(false), model.Decimal(2), model.Long(3),
		model.Set(model.Long(1)), model.Set(model.Bool(true)), model.Set(model.Long(0), model.Long(1)), model.Set(),
		model.Rec(), model.Rec("a", model.Long(1)), model.Rec("a", model.Bool(true)), model.Str(""), model.Datetime(2), model.Duration(0))
	return out
}

func RandLong(r *R) int64 {
	switch r.Intn(6) {
	case 0, 1:
		return mon.Pick(r, Longs)
	case 2:
		return int64(r.Intn(21)) - 10
	case 3:
		return r.I64()
	case 4:
		return r.I64() >> uint(r.Intn(64))
	default:
		return mon.Pick(r, Longs) + int64(r.Intn(3)) - 1 // may wrap; fine, any int64 is a value
	}
}

func RandString(r *R) string {
	if r.P(0.7) {
		return mon.Pick(r, Strings)
	}
	n := r.Intn(5)
	s := ""
	for i := 0; i < n; i++ {
		s += mon.Pick(r, Strings)
	}
	return s
}

func RandUID(r *R) model.Val {
	// small universe so that references hit entities in the store
	if r.P(0.85) {
		return model.Ent(EntityTypes[r.Intn(3)], EntityIDs[r.Intn(4)])
	}
	return model.Ent(mon.Pick(r, EntityTypes), mon.Pick(r, EntityIDs))
}

func RandIP(r *R) model.Val {
	if r.P(0.7) {
		return mon.Pick(r, IPs)
	}
	if r.Bool() {
		return model.IP4(uint32(r.U64()), r.Intn(33))
	}
	return ip6(r.U64(), r.U64(), r.Intn(129))
}

func RandScalarOf(r *R, k model.Kind) model.Val {
	switch k {
	case model.KBool:
		return model.Bool(r.Bool())
	case model.KLong:
		return model.Long(RandLong(r))
	case model.KString:
		return model.Str(RandString(r))
	case model.KEntity:
		return RandUID(r)
	case model.KDecimal:
		if r.P(0.6) {
			return model.Decimal(mon.Pick(r, Decimals))
		}
		return model.Decimal(RandLong(r))
	case model.KDatetime:
		if r.P(0.6) {
			return model.Datetime(mon.Pick(r, Datetimes))
		}
		return model.Datetime(RandLong(r))
	case model.KDuration:
		if r.P(0.6) {
			return model.Duration(mon.Pick(r, Durations))
		}
		return model.Duration(RandLong(r))
	case model.KIP:
		return RandIP(r)
	}
	panic("not scalar")
}

var scalarKinds = []model.Kind{model.KBool, model.KLong, model.KString, model.KEntity, model.KDecimal, model.KDatetime, model.KDuration, model.KIP}

func RandKind(r *R) model.Kind { return model.Kind(r.Intn(10)) }

// RandVal draws a value; depth bounds set/record nesting.
func RandVal(r *R, depth int) model.Val {
	if depth <= 0 || r.P(0.6) {
		if r.P(0.15) {
			return mon.Pick(r, Collide())
		}
		return RandScalarOf(r, mon.Pick(r, scalarKinds))
	}
	return RandValOf(r, mon.Pick(r, []model.Kind{model.KSet, model.KRecord}), depth)
}

func RandValOf(r *R, k model.Kind, depth int) model.Val {
	switch k {
	case model.KSet:
		n := r.Intn(4)
		xs := make([]model.Val, n)
		homog := r.P(0.6)
		hk := mon.Pick(r, scalarKinds)
		for i := range xs {
			if homog {
				xs[i] = RandScalarOf(r, hk)
			} else {
				xs[i] = RandVal(r, depth-1)
			}
		}
		return model.Set(xs...)
	case model.KRecord:
		n := r.Intn(4)
		ks := make([]string, n)
		vs := make([]model.Val, n)
		for i := range ks {
			ks[i] = mon.Pick(r, AttrNames)
			vs[i] = RandVal(r, depth-1)
		}
		return model.Record(ks, vs)
	}
	return RandScalarOf(r, k)
}

// RandStore builds an entity store over the small UID universe with arbitrary parent
// digraphs (self loops, cycles, parents absent from the store).
func RandStore(r *R) map[string]*model.Entity {
	st := map[string]*model.Entity{}
	n := r.Intn(7)
	for i := 0; i < n; i++ {
		uid := RandUID(r)
		e := &model.Entity{UID: uid}
		np := r.Intn(4)
		for j := 0; j < np; j++ {
			e.Parents = append(e.Parents, RandUID(r))
		}
		e.Parents = model.Set(e.Parents...).Elems
		e.Attrs = RandValOf(r, model.KRecord, 2)
		e.Tags = RandValOf(r, model.KRecord, 1)
		if r.P(0.3) {
			// tags keyed by strings from the string universe
			e.Tags = model.Record([]string{RandString(r), RandString(r)}, []model.Val{RandVal(r, 1), RandVal(r, 1)})
		}
		st[uid.Key()] = e
	}
	return st
}

func RandEnv(r *R) *model.Env {
	env := &model.Env{Store: RandStore(r)}
	env.P = model.Ent(EntityTypes[r.Intn(3)], EntityIDs[r.Intn(4)])
	env.A = model.Ent("Action", mon.Pick(r, []string{"a", "b", "view"}))
	env.R = RandUID(r)
	env.Ctx = RandValOf(r, model.KRecord, 2)
	if r.P(0.5) {
		// make the action an entity of the store with parents now and then
		e := &model.Entity{UID: env.A, Attrs: model.Rec(), Tags: model.Rec()}
		if r.Bool() {
			e.Parents = []model.Val{model.Ent("Action", "grp")}
		}
		env.Store[env.A.Key()] = e
	}
	return env
}
