// Command check runs one property monitor: check <ID> [--tier quick|thorough] [--replay file].
package main

import (
	"fmt"
	"os"
	"sort"
	"strconv"

	"verif/internal/mon"
	"verif/internal/props"
)

func main() {
	if len(os.Args) < 2 {
		ids := []string{}
		for k := range props.Registry {
			ids = append(ids, k)
		}
		sort.Strings(ids)
		fmt.Println("usage: check <ID> [--tier quick|thorough] [--replay file]; properties:", ids)
		os.Exit(3)
	}
	id := os.Args[1]
	if fn, ok := props.ChildModes[id]; ok {
		os.Exit(fn(os.Args[2:]))
	}
	tier := os.Getenv("VERIF_TIER")
	if tier == "" {
		tier = "quick"
	}
	var replay string
	for i := 2; i < len(os.Args); i++ {
		switch os.Args[i] {
		case "--tier":
			i++
			tier = os.Args[i]
		case "--replay":
			i++
			replay = os.Args[i]
		}
	}
	if tier != "quick" && tier != "thorough" {
		fmt.Fprintln(os.Stderr, "bad tier", tier)
		os.Exit(3)
	}
	var seed uint64 = 1
	if s := os.Getenv("VERIF_SEED"); s != "" {
		if v, err := strconv.ParseInt(s, 10, 64); err == nil {
			seed = uint64(v)
		} else if u, err := strconv.ParseUint(s, 10, 64); err == nil {
			seed = u
		}
	}
	fn, ok := props.Registry[id]
	if !ok {
		fmt.Fprintln(os.Stderr, "unknown property", id)
		os.Exit(3)
	}
	c := mon.New(id, tier, seed)
	if lv, ok := props.Levels[id]; ok {
		c.Level = lv
	}
	if replay != "" {
		rp, err := mon.LoadReplay(replay)
		if err != nil {
			fmt.Fprintln(os.Stderr, "cannot read replay file:", err)
			os.Exit(3)
		}
		c.Seed, c.Tier, c.Replay = rp.Seed, rp.Tier, rp
	}
	fn(c)
	os.Exit(c.Finish())
}
